(* MinimizerProofs.v — minimization (Minimizer.v) preserves the recognised language. *)
From Coq Require Import Sorted Permutation.
From Scnr Require Import Base Automaton Minimizer.

(* ====================================================================== *)
(* 1. The quotient lemma (bisimulation between A and its image under g)    *)
(* ====================================================================== *)
Section Quot.
Variable tbl : N -> N -> bool.
Variables A B : dfa.
Variable g : nat -> nat.          (* state of A -> state (group) of B *)
Variable okA : nat -> Prop.       (* valid states of A, closed under edges *)

Hypothesis g0 : g 0 = 0.
Hypothesis ok0 : okA 0.
Hypothesis ok_closed : forall q a q', okA q -> In (a,q') (nth q (trans A) []) -> okA q'.
Hypothesis acc_g : forall q t, okA q -> acc B (g q) t = acc A q t.
Hypothesis fwd : forall q a q', okA q -> In (a,q') (nth q (trans A) []) -> In (a, g q') (nth (g q) (trans B) []).
Hypothesis bwd : forall q a p', okA q -> In (a,p') (nth (g q) (trans B) []) ->
                  exists q', In (a,q') (nth q (trans A) []) /\ g q' = p'.

Definition Rel (SA SB : list nat) : Prop :=
  (forall q, In q SA -> okA q) /\ (forall p, In p SB <-> exists q, In q SA /\ g q = p).

Lemma Rel_step SA SB c : Rel SA SB -> Rel (step tbl A SA c) (step tbl B SB c).
Proof.
  intros (Hok & HR). split.
  - intros q' Hq'. apply step_in in Hq' as (q & Hq & Ho). apply out_in in Ho as (a & He & _).
    eapply ok_closed; [apply Hok; exact Hq | exact He].
  - intros p'. rewrite step_in. split.
    + intros (p & Hp & Ho). apply HR in Hp as (q & Hq & <-). apply out_in in Ho as (a & He & Ht).
      destruct (bwd q a p' (Hok _ Hq) He) as (q' & He' & <-).
      exists q'. split; [|reflexivity]. apply step_in. exists q. split; [exact Hq|]. apply out_in. exists a. split; assumption.
    + intros (q' & Hq' & <-). apply step_in in Hq' as (q & Hq & Ho). apply out_in in Ho as (a & He & Ht).
      exists (g q). split; [apply HR; exists q; split; [exact Hq|reflexivity]|]. apply out_in. exists a. split; [apply fwd; [apply Hok; exact Hq|exact He]|exact Ht].
Qed.

Lemma Rel_run w : forall SA SB, Rel SA SB -> Rel (run tbl A SA w) (run tbl B SB w).
Proof. induction w as [|c w IH]; intros SA SB HR; cbn [run]; auto. apply IH, Rel_step; auto. Qed.

Lemma Rel_start : Rel [0] [0].
Proof.
  split.
  - intros q [<-|[]]. exact ok0.
  - intros p. cbn. split.
    + intros [<-|[]]. exists 0. auto.
    + intros (q & [<-|[]] & <-). left. auto.
Qed.

(* the state sets reached in B are the images of the state sets reached in A *)
Theorem quotient_run w : forall p, In p (run tbl B [0] w) <-> exists q, In q (run tbl A [0] w) /\ g q = p.
Proof. exact (proj2 (Rel_run w _ _ Rel_start)). Qed.

Theorem quotient_preserves w t : accepts_tok tbl B w t <-> accepts_tok tbl A w t.
Proof.
  pose proof (Rel_run w _ _ Rel_start) as (Hok & HR). unfold accepts_tok. split.
  - intros (p & Hp & Ha). apply HR in Hp as (q & Hq & <-). exists q. split; auto.
    rewrite <- acc_g; auto.
  - intros (q & Hq & Ha). exists (g q). split; [apply HR; eauto|]. rewrite acc_g; auto.
Qed.
End Quot.

(* ====================================================================== *)
(* 2. The boolean certificate                                              *)
(* ====================================================================== *)
Lemma edge_eqb_eq x y : edge_eqb x y = true <-> x = y.
Proof.
  unfold edge_eqb. destruct x as [a p], y as [b q]; cbn. rewrite andb_true_iff, N.eqb_eq, Nat.eqb_eq.
  split; [intros [-> ->]; auto | intros H; inversion H; auto].
Qed.

Lemma acc_fin_of A q t :
  acc A q t = match fin_of (fin A) q with (true, t') => N.eqb t t' | _ => false end.
Proof. reflexivity. Qed.

Lemma fin_eqb_acc A B p q t :
  fin_eqb (fin_of (fin B) p) (fin_of (fin A) q) = true -> acc B p t = acc A q t.
Proof.
  rewrite !acc_fin_of. destruct (fin_of (fin B) p) as [[|] t1], (fin_of (fin A) q) as [[|] t2]; cbn; try discriminate; auto.
  intros H. apply N.eqb_eq in H. subst. reflexivity.
Qed.

Theorem quotient_ok_sound tbl A B g :
  quotient_ok A B g = true -> forall w t, accepts_tok tbl B w t <-> accepts_tok tbl A w t.
Proof.
  unfold quotient_ok. intros H.
  apply andb_true_iff in H as [H Hall]. apply andb_true_iff in H as [Hg0 Hn].
  apply Nat.eqb_eq in Hg0. apply Nat.ltb_lt in Hn. rewrite forallb_forall in Hall.
  assert (Hq : forall q, q < length (trans A) ->
     fin_eqb (fin_of (fin B) (g q)) (fin_of (fin A) q) = true
     /\ (forall a q', In (a,q') (nth q (trans A) []) -> q' < length (trans A) /\ In (a, g q') (nth (g q) (trans B) []))
     /\ (forall a p', In (a,p') (nth (g q) (trans B) []) -> exists q', In (a,q') (nth q (trans A) []) /\ g q' = p')).
  { intros q Hlt. specialize (Hall q). rewrite in_seq in Hall. specialize (Hall ltac:(lia)).
    apply andb_true_iff in Hall as [Hall Hb]. apply andb_true_iff in Hall as [Hall Hf].
    apply andb_true_iff in Hall as [_ Hfin]. rewrite forallb_forall in Hf, Hb. split; [exact Hfin|split].
    - intros a q' Hin. specialize (Hf _ Hin). cbn [fst snd] in Hf. apply andb_true_iff in Hf as [H1 H2].
      apply Nat.ltb_lt in H1. split; auto. apply existsb_exists in H2 as (e & He & Heq).
      apply edge_eqb_eq in Heq. subst. exact He.
    - intros a p' Hin. specialize (Hb _ Hin). cbn [fst snd] in Hb. apply existsb_exists in Hb as ([a' q'] & He & Heq).
      cbn [fst snd] in Heq. apply andb_true_iff in Heq as [H1 H2]. apply N.eqb_eq in H1. apply Nat.eqb_eq in H2.
      subst. exists q'. auto. }
  apply (quotient_preserves tbl A B g (fun q => q < length (trans A))); auto.
  - intros q a q' Hlt Hin. destruct (Hq q Hlt) as (_ & Hf & _). apply (Hf a q' Hin).
  - intros q t Hlt. apply fin_eqb_acc. apply (Hq q Hlt).
  - intros q a q' Hlt Hin. destruct (Hq q Hlt) as (_ & Hf & _). apply (Hf a q' Hin).
  - intros q a p' Hlt Hin. destruct (Hq q Hlt) as (_ & _ & Hb). apply (Hb a p' Hin).
Qed.

(* ====================================================================== *)
(* 3. List utilities                                                       *)
(* ====================================================================== *)
Lemma set_nth_length {X} i (x:X) l : length (set_nth i x l) = length l.
Proof. revert i; induction l as [|y l IH]; intros [|i]; cbn; auto. Qed.

Lemma nth_set_nth {X} i j (x d:X) l :
  nth j (set_nth i x l) d = if (Nat.eqb j i && Nat.ltb i (length l))%bool then x else nth j l d.
Proof.
  revert i j; induction l as [|y l IH]; intros i j.
  - cbn. rewrite andb_false_r. destruct i; reflexivity.
  - destruct i as [|i], j as [|j]; cbn [set_nth nth length]; auto.
    rewrite IH. reflexivity.
Qed.

Lemma set_nth_app {X} (l1:list X) x y l2 : set_nth (length l1) y (l1 ++ x :: l2) = l1 ++ y :: l2.
Proof. induction l1; cbn; congruence. Qed.
Lemma remove_at_app {X} (l1:list X) x l2 : remove_at (length l1) (l1 ++ x :: l2) = l1 ++ l2.
Proof. induction l1; cbn; congruence. Qed.
Lemma nth_app_mid {X} (l1:list X) x l2 d : nth (length l1) (l1 ++ x :: l2) d = x.
Proof. induction l1; cbn; auto. Qed.

Lemma NoDup_app_intro {X} (l1 l2:list X) :
  NoDup l1 -> NoDup l2 -> (forall x, In x l1 -> ~ In x l2) -> NoDup (l1 ++ l2).
Proof.
  induction l1 as [|x l1 IH]; intros H1 H2 Hd; cbn; auto.
  inversion H1; subst. constructor.
  - rewrite in_app_iff. intros [H|H]; [auto|]. apply (Hd x); cbn; auto.
  - apply IH; auto. intros y Hy. apply Hd. cbn; auto.
Qed.
Lemma NoDup_app_elim {X} (l1 l2:list X) :
  NoDup (l1 ++ l2) -> NoDup l1 /\ NoDup l2 /\ (forall x, In x l1 -> ~ In x l2).
Proof.
  induction l1 as [|x l1 IH]; cbn; intros H.
  - repeat split; auto. constructor.
  - inversion H; subst. destruct (IH H3) as (H1 & H2' & Hd). rewrite in_app_iff in H2. repeat split; auto.
    + constructor; auto.
    + intros y [<-|Hy]; auto.
Qed.

Lemma SS_lt_NoDup l : StronglySorted lt l -> NoDup l.
Proof.
  induction 1; constructor; auto. intros Hin. rewrite Forall_forall in H0. specialize (H0 _ Hin). lia.
Qed.
Lemma SS_filter (f:nat -> bool) l : StronglySorted lt l -> StronglySorted lt (filter f l).
Proof.
  induction 1; cbn; [constructor|]. destruct (f a); auto. constructor; auto.
  rewrite Forall_forall in *. intros x Hx. apply filter_In in Hx as [Hx _]. auto.
Qed.
Lemma SS_seq a n : StronglySorted lt (seq a n).
Proof.
  revert a; induction n; intros a; cbn; constructor; auto.
  rewrite Forall_forall. intros x Hx. apply in_seq in Hx. lia.
Qed.
Lemma SS_snoc l q : StronglySorted lt l -> (forall x, In x l -> x < q) -> StronglySorted lt (l ++ [q]).
Proof.
  induction 1; intros Hq; cbn.
  - constructor; constructor.
  - constructor.
    + apply IHStronglySorted. intros x Hx. apply Hq. cbn; auto.
    + rewrite Forall_forall in *. intros x Hx. apply in_app_iff in Hx as [Hx|[<-|[]]]; auto. apply Hq. cbn; auto.
Qed.
Lemma SS_app_remove l1 (x:nat) l2 : StronglySorted lt (l1 ++ x :: l2) -> StronglySorted lt (l1 ++ l2).
Proof.
  induction l1 as [|y l1 IH]; cbn; intros H; inversion H; subst; auto.
  constructor; auto. rewrite Forall_forall in *. intros z Hz. apply H3. rewrite in_app_iff in *. cbn. tauto.
Qed.
Lemma SS_app_lt l1 (x:nat) l2 : StronglySorted lt (l1 ++ x :: l2) ->
  (forall y, In y l1 -> y < x) /\ (forall y, In y l2 -> x < y).
Proof.
  induction l1 as [|y l1 IH]; cbn; intros H; inversion H; subst.
  - split; [tauto|]. rewrite Forall_forall in H3. auto.
  - destruct (IH H2) as [H4 H5]. split; auto. intros z [<-|Hz]; auto.
    rewrite Forall_forall in H3. apply H3. rewrite in_app_iff. cbn. auto.
Qed.
(* sorted lists with the same elements are equal *)
Lemma SS_ext l1 : forall l2, StronglySorted lt l1 -> StronglySorted lt l2 ->
  (forall x, In x l1 <-> In x l2) -> l1 = l2.
Proof.
  induction l1 as [|a l1 IH]; intros [|b l2] H1 H2 He; auto.
  - exfalso. apply (He b). cbn; auto.
  - exfalso. apply (He a). cbn; auto.
  - inversion H1; subst. inversion H2; subst. rewrite Forall_forall in *.
    assert (a = b).
    { destruct (proj1 (He a) ltac:(cbn;auto)) as [E|Ha]; auto.
      destruct (proj2 (He b) ltac:(cbn;auto)) as [E|Hb]; auto.
      specialize (H4 _ Hb). specialize (H6 _ Ha). lia. }
    subst. f_equal. apply IH; auto. intros x. split; intros Hx.
    + destruct (proj1 (He x) ltac:(cbn;auto)) as [E|Hx']; auto. subst. specialize (H4 _ Hx). lia.
    + destruct (proj2 (He x) ltac:(cbn;auto)) as [E|Hx']; auto. subst. specialize (H6 _ Hx). lia.
Qed.

Lemma filter_split_perm {X} (f:X -> bool) l :
  Permutation (filter f l ++ filter (fun x => negb (f x)) l) l.
Proof.
  induction l as [|x l IH]; cbn; auto. destruct (f x); cbn.
  - constructor; auto.
  - apply Permutation_sym. apply Permutation_cons_app. apply Permutation_sym. auto.
Qed.
Lemma concat_perm {X} (l l':list (list X)) : Permutation l l' -> Permutation (concat l) (concat l').
Proof.
  induction 1; cbn; auto.
  - apply Permutation_app_head; auto.
  - rewrite !app_assoc. apply Permutation_app_tail. apply Permutation_app_comm.
  - eapply Permutation_trans; eauto.
Qed.

Lemma flat_map_length_ge {X Y} (f:X -> list Y) l :
  (forall x, In x l -> 1 <= length (f x)) -> length l <= length (flat_map f l).
Proof.
  induction l as [|x l IH]; cbn; intros H; auto. rewrite app_length.
  specialize (H x (or_introl eq_refl)) as Hx. specialize (IH (fun y Hy => H y (or_intror Hy))). lia.
Qed.
Lemma flat_map_length_1 {X Y} (f:X -> list Y) l :
  (forall x, In x l -> 1 <= length (f x)) -> length (flat_map f l) = length l ->
  forall x, In x l -> length (f x) = 1.
Proof.
  induction l as [|x l IH]; cbn; intros H Hl y Hy; [tauto|]. rewrite app_length in Hl.
  pose proof (H x (or_introl eq_refl)) as Hx.
  pose proof (flat_map_length_ge f l (fun y Hy => H y (or_intror Hy))) as Hge.
  destruct Hy as [<-|Hy]; [lia|]. apply IH; auto. lia.
Qed.
Lemma concat_length_ge {X} (P:list (list X)) : (forall G, In G P -> G <> []) -> length P <= length (concat P).
Proof.
  induction P as [|G P IH]; cbn; intros H; auto. rewrite app_length.
  specialize (IH (fun G' HG' => H G' (or_intror HG'))). specialize (H G (or_introl eq_refl)).
  destruct G; [congruence|cbn; lia].
Qed.
Lemma in_concat_iff {X} (P:list (list X)) x : In x (concat P) <-> exists G, In G P /\ In x G.
Proof. rewrite in_concat. firstorder. Qed.

(* ====================================================================== *)
(* 4. Transition maps and signatures                                       *)
(* ====================================================================== *)
Definition tm_in (m:tmap) (a:N) (t:nat) : Prop := exists l, In (a,l) m /\ In t l.

Lemma tm_insert_in c t m a x : tm_in (tm_insert c t m) a x <-> (a = c /\ x = t) \/ tm_in m a x.
Proof.
  unfold tm_in. induction m as [|[c' l] m IH]; cbn [tm_insert].
  - cbn. split.
    + intros (l & [E|[]] & Hx). inversion E; subst. destruct Hx as [<-|[]]. auto.
    + intros [[-> ->]|(l & [] & _)]. exists [t]. cbn; auto.
  - destruct (N.ltb c c').
    + cbn [In]. split.
      * intros (l0 & [E|Hin] & Hx); [inversion E; subst; destruct Hx as [<-|[]]; auto|right; eauto].
      * intros [[-> ->]|(l0 & Hin & Hx)]; [exists [t]; cbn; auto|exists l0; auto].
    + destruct (N.eqb c c') eqn:E.
      * apply N.eqb_eq in E; subst c'. cbn [In]. split.
        -- intros (l0 & [E|Hin] & Hx).
           ++ inversion E; subst. apply insert_in in Hx as [->|Hx]; [auto|right; exists l; auto].
           ++ right; eauto.
        -- intros [[-> ->]|(l0 & [E|Hin] & Hx)].
           ++ exists (insert t l). split; auto. apply insert_in; auto.
           ++ inversion E; subst. exists (insert t l0). split; auto. apply insert_in; auto.
           ++ exists l0; auto.
      * cbn [In]. split.
        -- intros (l0 & [E'|Hin] & Hx); [right; exists l0; auto|].
           destruct (proj1 IH (ex_intro _ l0 (conj Hin Hx))) as [H|(l1 & H1 & H2)]; [auto|right; exists l1; auto].
        -- intros [H|(l0 & [E'|Hin] & Hx)].
           ++ destruct (proj2 IH (or_introl H)) as (l1 & H1 & H2). exists l1; auto.
           ++ exists l0; auto.
           ++ destruct (proj2 IH (or_intror (ex_intro _ l0 (conj Hin Hx)))) as (l1 & H1 & H2). exists l1; auto.
Qed.

Lemma tm_of_edges_in es a t : tm_in (tm_of_edges es) a t <-> In (a,t) es.
Proof.
  unfold tm_of_edges.
  assert (G : forall m, tm_in (fold_left (fun m e => tm_insert (fst e) (snd e) m) es m) a t <-> tm_in m a t \/ In (a,t) es).
  { induction es as [|[c x] es IH]; intros m; cbn [fold_left In]; [tauto|].
    rewrite IH, tm_insert_in. cbn [fst snd]. split.
    - intros [[[-> ->]|H]|H]; auto.
    - intros [H|[E|H]]; auto. inversion E; subst. auto. }
  rewrite G. unfold tm_in. cbn. split; [intros [(l & [] & _)|H]; auto|auto].
Qed.

Lemma tm_edges_in m a t : In (a,t) (tm_edges m) <-> tm_in m a t.
Proof.
  unfold tm_edges, tm_in. rewrite in_flat_map. split.
  - intros ([c l] & Hin & Hx). cbn [fst snd] in Hx. apply in_map_iff in Hx as (x & E & Hx). inversion E; subst. eauto.
  - intros (l & Hin & Hx). exists (a,l). split; auto. cbn [fst snd]. apply in_map_iff. eauto.
Qed.

Lemma sig_of_in md P m a gid :
  In (a,gid) (sig_of md P m) <-> exists t, tm_in m a t /\ find_group md P t = gid.
Proof.
  unfold sig_of, tm_in. rewrite in_flat_map. split.
  - intros ([c l] & Hin & Hx). cbn [fst snd] in Hx. apply in_map_iff in Hx as (x & E & Hx). inversion E; subst. eauto.
  - intros (t & (l & Hin & Hx) & <-). exists (a,l). split; auto. cbn [fst snd]. apply in_map_iff. eauto.
Qed.

Lemma sig_cmp_eq a : forall b, sig_cmp a b = Eq -> a = b.
Proof.
  induction a as [|[c1 g1] a IH]; intros [|[c2 g2] b]; cbn; try discriminate; auto.
  destruct (N.compare c1 c2) eqn:E1; try discriminate.
  destruct (N.compare g1 g2) eqn:E2; try discriminate.
  apply N.compare_eq in E1. apply N.compare_eq in E2. intros H. apply IH in H. congruence.
Qed.

Lemma build_tmaps_nth A q a t :
  tm_in (nth q (build_tmaps A) []) a t <-> In (a,t) (nth q (trans A) []).
Proof.
  unfold build_tmaps. destruct (Nat.lt_ge_cases q (length (trans A))) as [H|H].
  - rewrite (nth_indep _ [] (tm_of_edges []) ltac:(rewrite map_length; exact H)).
    rewrite map_nth. apply tm_of_edges_in.
  - rewrite !nth_overflow; [|auto|rewrite map_length; auto]. unfold tm_in. cbn. split; [intros (l & [] & _)|tauto].
Qed.

(* ====================================================================== *)
(* 5. Partitions: invariant, initial partition, refinement                 *)
(* ====================================================================== *)
Lemma ninsert_SS x l : StronglySorted N.lt l -> StronglySorted N.lt (ninsert x l).
Proof.
  induction 1 as [|y l Hs IH Hf]; cbn [ninsert]; [constructor; constructor|].
  rewrite Forall_forall in Hf.
  destruct (N.ltb x y) eqn:E1.
  - apply N.ltb_lt in E1. constructor; [constructor; auto; rewrite Forall_forall; auto|].
    rewrite Forall_forall. intros z [<-|Hz]; auto. specialize (Hf _ Hz). lia.
  - destruct (N.eqb x y) eqn:E2; [constructor; auto; rewrite Forall_forall; auto|].
    apply N.ltb_ge in E1. apply N.eqb_neq in E2. constructor; auto.
    rewrite Forall_forall. intros z Hz. apply ninsert_in in Hz as [->|Hz]; auto. lia.
Qed.
Lemma nnorm_NoDup l : NoDup (nnorm l).
Proof.
  assert (H : StronglySorted N.lt (nnorm l)).
  { induction l; cbn; [constructor|]. apply ninsert_SS. exact IHl. }
  induction H; constructor; auto. intros Hin. rewrite Forall_forall in H0. specialize (H0 _ Hin). lia.
Qed.

Definition clsf (f:bool * N) : option N := if fst f then Some (snd f) else None.
Lemma acc_clsf A q t :
  acc A q t = match clsf (fin_of (fin A) q) with Some t' => N.eqb t t' | None => false end.
Proof. rewrite acc_fin_of. unfold clsf. destruct (fin_of (fin A) q) as [[|] t']; reflexivity. Qed.

Section Part.
Variable n : nat.
Variable fi : list (bool * N).
Definition cls (q:nat) : option N := clsf (fin_of fi q).

Record Part (P:partition) : Prop := {
  part_perm : Permutation (concat P) (seq 0 n);
  part_sorted : forall G, In G P -> StronglySorted lt G;
  part_cls : forall G q q', In G P -> In q G -> In q' G -> cls q = cls q' }.

Lemma part_in P q : Part P -> (In q (concat P) <-> q < n).
Proof.
  intros H. split; intros Hq.
  - apply (Permutation_in _ (part_perm P H)) in Hq. apply in_seq in Hq. lia.
  - apply (Permutation_in _ (Permutation_sym (part_perm P H))). apply in_seq. lia.
Qed.
Lemma part_nodup P : Part P -> NoDup (concat P).
Proof. intros H. apply (Permutation_NoDup (Permutation_sym (part_perm P H))). apply seq_NoDup. Qed.
Lemma part_length P : Part P -> (forall G, In G P -> G <> []) -> length P <= n.
Proof.
  intros H Hne. pose proof (concat_length_ge P Hne). rewrite (Permutation_length (part_perm P H)), seq_length in H0. exact H0.
Qed.

Lemma initial_partition_Part : length fi = n -> Part (initial_partition n fi).
Proof.
  intros Hlen. unfold initial_partition.
  set (G0 := filter (fun q => negb (fst (fin_of fi q))) (seq 0 n)).
  set (Gt := fun t => filter (fun q => fst (fin_of fi q) && N.eqb (snd (fin_of fi q)) t) (seq 0 n)).
  split.
  - apply NoDup_Permutation; [|apply seq_NoDup|].
    + cbn [concat]. apply NoDup_app_intro.
      * apply NoDup_filter, seq_NoDup.
      * generalize (nnorm_NoDup (flat_map (fun e : bool * N => if fst e then [snd e] else []) fi)).
        fold (terminal_map fi). induction 1 as [|t ts Hnt Hnd IH]; cbn; [constructor|].
        apply NoDup_app_intro; auto; [apply NoDup_filter, seq_NoDup|].
        intros x Hx Hx'. apply filter_In in Hx as [_ Hx]. apply andb_true_iff in Hx as [_ Hx]. apply N.eqb_eq in Hx.
        apply in_concat_iff in Hx' as (G & HG & Hx'). apply in_map_iff in HG as (t' & <- & Ht').
        apply filter_In in Hx' as [_ Hx']. apply andb_true_iff in Hx' as [_ Hx']. apply N.eqb_eq in Hx'. congruence.
      * intros x Hx Hx'. apply filter_In in Hx as [_ Hx].
        apply in_concat_iff in Hx' as (G & HG & Hx'). apply in_map_iff in HG as (t' & <- & Ht').
        apply filter_In in Hx' as [_ Hx']. apply andb_true_iff in Hx' as [Hx' _]. rewrite Hx' in Hx. discriminate.
    + intros q. cbn [concat]. rewrite in_app_iff. split.
      * intros [Hq|Hq]; [apply filter_In in Hq; tauto|].
        apply in_concat_iff in Hq as (G & HG & Hq). apply in_map_iff in HG as (t' & <- & Ht').
        apply filter_In in Hq. tauto.
      * intros Hq. destruct (fst (fin_of fi q)) eqn:E.
        -- right. apply in_concat_iff. exists (Gt (snd (fin_of fi q))). split.
           ++ apply in_map_iff. exists (snd (fin_of fi q)). split; auto. unfold terminal_map. apply nnorm_in.
              apply in_flat_map. exists (fin_of fi q). split.
              ** unfold fin_of. apply nth_In. apply in_seq in Hq. lia.
              ** rewrite E. cbn; auto.
           ++ apply filter_In. split; auto. rewrite E, N.eqb_refl. reflexivity.
        -- left. apply filter_In. split; auto. rewrite E. reflexivity.
  - intros G [<-|HG]; [apply SS_filter, SS_seq|]. apply in_map_iff in HG as (t & <- & _). apply SS_filter, SS_seq.
  - intros G q q' [<-|HG] Hq Hq'.
    + apply filter_In in Hq as [_ Hq]. apply filter_In in Hq' as [_ Hq']. unfold cls, clsf.
      apply negb_true_iff in Hq, Hq'. rewrite Hq, Hq'. reflexivity.
    + apply in_map_iff in HG as (t & <- & _).
      apply filter_In in Hq as [_ Hq]. apply filter_In in Hq' as [_ Hq']. unfold cls, clsf.
      apply andb_true_iff in Hq as [H1 H2]. apply andb_true_iff in Hq' as [H1' H2'].
      apply N.eqb_eq in H2, H2'. rewrite H1, H1'. congruence.
Qed.

(* --- one refinement step, for an arbitrary signature function --- *)
Variable sigf : nat -> sigt.

Definition bok (e:sigt * group) : Prop :=
  snd e <> [] /\ StronglySorted lt (snd e) /\ forall x, In x (snd e) -> sigf x = fst e.

Lemma bucket_insert_perm q b :
  Permutation (concat (map snd (bucket_insert (sigf q) q b))) (q :: concat (map snd b)).
Proof.
  induction b as [|[k l] b IH]; cbn [bucket_insert]; [cbn; auto|].
  destruct (sig_cmp (sigf q) k); cbn [map snd concat].
  - rewrite <- app_assoc. apply Permutation_sym. cbn [app]. apply Permutation_cons_app. apply Permutation_refl.
  - cbn. apply Permutation_refl.
  - eapply Permutation_trans; [apply Permutation_app_head; exact IH|].
    apply Permutation_sym. apply Permutation_middle.
Qed.

Lemma bucket_insert_ok q b :
  Forall bok b -> (forall x, In x (concat (map snd b)) -> x < q) -> Forall bok (bucket_insert (sigf q) q b).
Proof.
  induction b as [|[k l] b IH]; intros Hb Hlt; cbn [bucket_insert].
  - constructor; auto. repeat split; cbn; [discriminate|repeat constructor|intros x [<-|[]]; auto].
  - inversion Hb as [|? ? Hk Hb']; subst. destruct Hk as (Hne & Hs & Hsig). cbn [fst snd] in *.
    destruct (sig_cmp (sigf q) k) eqn:E.
    + apply sig_cmp_eq in E. constructor; auto. repeat split; cbn [fst snd].
      * destruct l; discriminate.
      * apply SS_snoc; auto. intros x Hx. apply Hlt. cbn. rewrite in_app_iff; auto.
      * intros x Hx. apply in_app_iff in Hx as [Hx|[<-|[]]]; auto.
    + constructor; auto. repeat split; cbn; [discriminate|repeat constructor|intros x [<-|[]]; auto].
    + constructor; [repeat split; auto|]. apply IH; auto. intros x Hx. apply Hlt. cbn. rewrite in_app_iff; auto.
Qed.

Definition buckets (G:group) (b:list (sigt * group)) := fold_left (fun b q => bucket_insert (sigf q) q b) G b.

Lemma buckets_spec G2 : forall G1 b, StronglySorted lt (G1 ++ G2) ->
  Permutation (concat (map snd b)) G1 -> Forall bok b ->
  Permutation (concat (map snd (buckets G2 b))) (G1 ++ G2) /\ Forall bok (buckets G2 b).
Proof.
  induction G2 as [|q G2 IH]; intros G1 b Hs Hp Hb; cbn [buckets fold_left].
  - rewrite app_nil_r. auto.
  - fold (buckets G2 (bucket_insert (sigf q) q b)).
    replace (G1 ++ q :: G2) with ((G1 ++ [q]) ++ G2) in * by (rewrite <- app_assoc; reflexivity).
    apply IH; auto.
    + eapply Permutation_trans; [apply bucket_insert_perm|].
      eapply Permutation_trans; [apply perm_skip; exact Hp|]. apply Permutation_cons_append.
    + apply bucket_insert_ok; auto. intros x Hx. apply (Permutation_in _ Hp) in Hx.
      rewrite <- app_assoc in Hs. cbn in Hs. apply SS_app_lt in Hs as [Hs _]. auto.
Qed.

Lemma one_bucket (bs:list (sigt * group)) G :
  Permutation (concat (map snd bs)) G -> Forall bok bs -> length bs <= 1 ->
  forall q q', In q G -> In q' G -> sigf q = sigf q'.
Proof.
  intros Hp Hb Hl q q' Hq Hq'. rewrite Forall_forall in Hb.
  apply (Permutation_in _ (Permutation_sym Hp)) in Hq, Hq'.
  destruct bs as [|[k y] [|? ?]]; cbn in Hl; try lia.
  - destruct Hq.
  - cbn in Hq, Hq'. rewrite app_nil_r in Hq, Hq'.
    pose proof (Hb (k,y) (or_introl eq_refl)) as Hk. unfold bok in Hk. destruct Hk as (_ & _ & Hk). cbn [fst snd] in Hk.
    rewrite (Hk _ Hq), (Hk _ Hq'). reflexivity.
Qed.

Variable splitf : group -> partition.
Hypothesis splitf_def : forall G, splitf G = if Nat.eqb (length G) 1 then [G] else map snd (buckets G []).

Lemma split_spec G : StronglySorted lt G ->
  Permutation (concat (splitf G)) G
  /\ (forall y, In y (splitf G) -> y <> [] /\ StronglySorted lt y)
  /\ (length (splitf G) <= 1 -> forall q q', In q G -> In q' G -> sigf q = sigf q').
Proof.
  intros Hs. rewrite splitf_def. destruct (Nat.eqb (length G) 1) eqn:E.
  - apply Nat.eqb_eq in E. destruct G as [|q [|? ?]]; try discriminate. cbn. split; [apply Permutation_refl|split].
    + intros y [<-|[]]. split; [discriminate|exact Hs].
    + intros _ a b [<-|[]] [<-|[]]. reflexivity.
  - destruct (buckets_spec G [] [] Hs (Permutation_refl _) (Forall_nil _)) as [Hp Hb]. cbn [app] in Hp.
    rewrite Forall_forall in Hb. split; [exact Hp|split].
    + intros y H. apply in_map_iff in H as (e & <- & He). pose proof (Hb e He) as Hk. unfold bok in Hk. tauto.
    + intros Hl q q' Hq Hq'. rewrite map_length in Hl.
      apply (one_bucket _ G Hp); auto. apply Forall_forall. exact Hb.
Qed.

Lemma split_length_1 G : StronglySorted lt G -> length (splitf G) = 1 -> splitf G = [G].
Proof.
  intros Hs Hl. destruct (split_spec G Hs) as (Hp & Hy & _).
  destruct (splitf G) as [|y [|? ?]]; try discriminate. f_equal.
  cbn in Hp. rewrite app_nil_r in Hp. apply SS_ext; auto.
  - apply (Hy y). cbn; auto.
  - intros x. split; intros Hx; [apply (Permutation_in _ Hp)|apply (Permutation_in _ (Permutation_sym Hp))]; auto.
Qed.

Definition refine (P:partition) : partition := flat_map splitf P.

Lemma refine_perm P : (forall G, In G P -> StronglySorted lt G) -> Permutation (concat (refine P)) (concat P).
Proof.
  unfold refine. induction P as [|G P IH]; intros Hs; cbn; auto.
  rewrite concat_app. apply Permutation_app.
  - apply split_spec. apply Hs. cbn; auto.
  - apply IH. intros G' HG'. apply Hs. cbn; auto.
Qed.

Lemma refine_Part P : Part P -> Part (refine P).
Proof.
  intros H. split.
  - eapply Permutation_trans; [apply refine_perm; apply (part_sorted P H)|apply (part_perm P H)].
  - intros y Hy. apply in_flat_map in Hy as (G & HG & Hy).
    apply (split_spec G (part_sorted P H G HG)). exact Hy.
  - intros y q q' Hy Hq Hq'. apply in_flat_map in Hy as (G & HG & Hy).
    destruct (split_spec G (part_sorted P H G HG)) as (Hp & _ & _).
    apply (part_cls P H G); auto; apply (Permutation_in _ Hp); apply in_concat_iff; eauto.
Qed.

Lemma refine_nonempty P : Part P -> forall y, In y (refine P) -> y <> [].
Proof.
  intros H y Hy. apply in_flat_map in Hy as (G & HG & Hy).
  apply (split_spec G (part_sorted P H G HG)). exact Hy.
Qed.

Lemma split_length_ge G : StronglySorted lt G -> G <> [] -> 1 <= length (splitf G).
Proof.
  intros Hs Hne. destruct (split_spec G Hs) as (Hp & _ & _).
  destruct (splitf G); [|cbn; lia]. cbn in Hp. apply Permutation_nil in Hp. congruence.
Qed.

(* the exit test of the loop: the partition is stable *)
Lemma refine_fix_stable P : Part P -> refine P = P ->
  (forall G, In G P -> G <> []) /\
  forall G q q', In G P -> In q G -> In q' G -> sigf q = sigf q'.
Proof.
  intros H Hfix.
  assert (Hne : forall G, In G P -> G <> []). { intros G HG. rewrite <- Hfix in HG. revert G HG. apply refine_nonempty; auto. }
  split; auto. intros G q q' HG Hq Hq'.
  assert (Hl : length (splitf G) = 1).
  { apply (flat_map_length_1 splitf P); auto.
    - intros x Hx. apply split_length_ge; auto. apply (part_sorted P H); auto.
    - fold (refine P). rewrite Hfix. reflexivity. }
  apply (split_spec G (part_sorted P H G HG)); auto. lia.
Qed.

(* a changing step strictly increases the number of groups once there is no empty group *)
Lemma refine_same_length P : Part P -> (forall G, In G P -> G <> []) ->
  length (refine P) = length P -> refine P = P.
Proof.
  intros H Hne Hl.
  assert (H1 : forall G, In G P -> splitf G = [G]).
  { intros G HG. apply split_length_1; [apply (part_sorted P H); auto|].
    apply (flat_map_length_1 splitf P); auto.
    intros x Hx. apply split_length_ge; auto. apply (part_sorted P H); auto. }
  unfold refine. clear - H1. induction P as [|G P IH]; cbn; auto.
  rewrite (H1 G (or_introl eq_refl)). cbn. f_equal. apply IH. intros G' HG'. apply H1. cbn; auto.
Qed.
Lemma refine_length_ge P : Part P -> (forall G, In G P -> G <> []) -> length P <= length (refine P).
Proof.
  intros H Hne. apply flat_map_length_ge. intros x Hx. apply split_length_ge; auto. apply (part_sorted P H); auto.
Qed.
End Part.

(* ====================================================================== *)
(* 6. The refinement loop                                                  *)
(* ====================================================================== *)
Lemma group_eqb_eq a : forall b, group_eqb a b = true -> a = b.
Proof.
  induction a as [|x a IH]; intros [|y b]; cbn; try discriminate; auto.
  intros H. apply andb_true_iff in H as [H1 H2]. apply natlist_eqb_eq in H1. f_equal; auto.
Qed.
Lemma group_eqb_refl a : group_eqb a a = true.
Proof. induction a; cbn; auto. rewrite natlist_eqb_refl; auto. Qed.

Definition sigP (md:N) (tms:list tmap) (P:partition) (q:nat) : sigt := sig_of md P (nth q tms []).

Lemma split_group_def md tms P G :
  split_group md tms P G = if Nat.eqb (length G) 1 then [G] else map snd (buckets (sigP md tms P) G []).
Proof. reflexivity. Qed.

Definition stable (md:N) (tms:list tmap) (P:partition) : Prop :=
  forall G q q', In G P -> In q G -> In q' G -> sigP md tms P q = sigP md tms P q'.

Section Loop.
Variable n : nat.
Variable fi : list (bool * N).
Variable md : N.
Variable tms : list tmap.

Lemma new_partition_Part P : Part n fi P -> Part n fi (new_partition md tms P).
Proof. apply (refine_Part n fi (sigP md tms P) (split_group md tms P) (split_group_def md tms P)). Qed.
Lemma new_partition_nonempty P : Part n fi P -> forall y, In y (new_partition md tms P) -> y <> [].
Proof. apply (refine_nonempty n fi (sigP md tms P) (split_group md tms P) (split_group_def md tms P)). Qed.

Lemma refine_loop_spec fuel : forall P Pf, Part n fi P -> refine_loop fuel md tms P = Some Pf ->
  Part n fi Pf /\ (forall G, In G Pf -> G <> []) /\ stable md tms Pf.
Proof.
  induction fuel as [|f IH]; intros P Pf HP; cbn [refine_loop]; [discriminate|].
  destruct (group_eqb (new_partition md tms P) P) eqn:E.
  - intros H; inversion H; subst. apply group_eqb_eq in E. rewrite E.
    split; auto. apply (refine_fix_stable n fi (sigP md tms P) (split_group md tms P) (split_group_def md tms P)); auto.
  - apply IH. apply new_partition_Part; auto.
Qed.

Lemma refine_loop_fuel fuel : forall P, Part n fi P -> (forall G, In G P -> G <> []) ->
  n + 1 <= fuel + length P -> refine_loop fuel md tms P <> None.
Proof.
  induction fuel as [|f IH]; intros P HP Hne Hf.
  - pose proof (part_length n fi P HP Hne). lia.
  - cbn [refine_loop]. destruct (group_eqb (new_partition md tms P) P) eqn:E; [discriminate|].
    apply IH.
    + apply new_partition_Part; auto.
    + apply new_partition_nonempty; auto.
    + pose proof (refine_length_ge n fi (sigP md tms P) (split_group md tms P) (split_group_def md tms P) P HP Hne) as Hge.
      change (length P <= length (new_partition md tms P)) in Hge.
      assert (length (new_partition md tms P) <> length P).
      { intros Hl. pose proof (refine_same_length n fi (sigP md tms P) (split_group md tms P) (split_group_def md tms P) P HP Hne Hl) as Hs.
        change (new_partition md tms P = P) in Hs. rewrite Hs, group_eqb_refl in E. discriminate. }
      lia.
Qed.

Lemma refine_loop_total P : Part n fi P -> refine_loop (n + 2) md tms P <> None.
Proof.
  intros HP. replace (n + 2) with (S (n + 1)) by lia. cbn [refine_loop].
  destruct (group_eqb (new_partition md tms P) P); [discriminate|].
  apply refine_loop_fuel; [apply new_partition_Part; auto|apply new_partition_nonempty; auto|lia].
Qed.
End Loop.

(* ====================================================================== *)
(* 7. Group indices and the reordered partition                            *)
(* ====================================================================== *)
Lemma gidx_in P q : In q (concat P) -> gidx P q < length P /\ In q (nth (gidx P q) P []).
Proof.
  induction P as [|G P IH]; cbn [concat gidx]; [intros []|].
  intros H. destruct (natmem q G) eqn:E.
  - apply natmem_in in E. cbn. split; [lia|auto].
  - apply in_app_iff in H as [H|H]; [apply natmem_in in H; congruence|].
    destruct (IH H). cbn. split; [lia|auto].
Qed.
Lemma gidx_unique P q : forall i, NoDup (concat P) -> In q (nth i P []) -> gidx P q = i.
Proof.
  induction P as [|G P IH]; intros i Hnd Hi; [destruct i; destruct Hi|].
  cbn [concat] in Hnd. apply NoDup_app_elim in Hnd as (_ & Hnd & Hd). cbn [gidx].
  destruct (natmem q G) eqn:E.
  - apply natmem_in in E. destruct i as [|i]; auto. cbn in Hi. exfalso. apply (Hd q E).
    apply in_concat_iff. exists (nth i P []). split; auto. apply nth_In.
    destruct (Nat.lt_ge_cases i (length P)); auto. rewrite nth_overflow in Hi; auto. destruct Hi.
  - destruct i as [|i]; cbn in Hi; [apply natmem_in in Hi; congruence|]. f_equal. apply IH; auto.
Qed.
Lemma gidx_same P q q' : NoDup (concat P) -> In q (concat P) -> In q' (concat P) ->
  (gidx P q = gidx P q' <-> exists G, In G P /\ In q G /\ In q' G).
Proof.
  intros Hnd Hq Hq'. destruct (gidx_in P q Hq) as [H1 H2]. destruct (gidx_in P q' Hq') as [H3 H4]. split.
  - intros E. exists (nth (gidx P q) P []). split; [apply nth_In; auto|split; auto]. rewrite E; auto.
  - intros (G & HG & HqG & Hq'G). destruct (In_nth P G [] HG) as (i & Hi & <-).
    rewrite (gidx_unique P q i), (gidx_unique P q' i); auto.
Qed.

Lemma reorder_perm P : Permutation (reorder P) P.
Proof. apply filter_split_perm. Qed.

Lemma Part_perm n fi P P' : Permutation P' P -> Part n fi P -> Part n fi P'.
Proof.
  intros Hp H. split.
  - eapply Permutation_trans; [apply concat_perm; exact Hp|apply (part_perm n fi P H)].
  - intros G HG. apply (part_sorted n fi P H). apply (Permutation_in _ Hp); auto.
  - intros G q q' HG. apply (part_cls n fi P H). apply (Permutation_in _ Hp); auto.
Qed.

Lemma reorder_gidx0 P : In 0 (concat P) -> gidx (reorder P) 0 = 0.
Proof.
  intros H. apply in_concat_iff in H as (G & HG & H0). unfold reorder.
  assert (Hin : In G (filter (fun G => natmem 0 G) P)). { apply filter_In. split; auto. apply natmem_in; auto. }
  destruct (filter (fun G => natmem 0 G) P) as [|G0 F] eqn:E; [destruct Hin|].
  assert (H1 : In G0 (filter (fun G => natmem 0 G) P)) by (rewrite E; cbn; auto).
  apply filter_In in H1 as [_ H1]. cbn. rewrite H1. reflexivity.
Qed.

(* ====================================================================== *)
(* 8. end_states of the result                                             *)
(* ====================================================================== *)
Definition rep_fin (fiA:list (bool * N)) (G:group) (r:bool * N) : bool * N :=
  fold_left (fun r s => if fst (fin_of fiA s) then (true, snd (fin_of fiA s)) else r) G r.

Lemma add_rep_spec fiA sid G : forall fi, sid < length fi ->
  length (add_rep fiA sid G fi) = length fi /\
  forall j d, nth j (add_rep fiA sid G fi) d = if Nat.eqb j sid then rep_fin fiA G (nth sid fi d) else nth j fi d.
Proof.
  unfold add_rep, rep_fin. induction G as [|s G IH]; intros fi Hs; cbn [fold_left].
  - split; auto. intros j d. destruct (Nat.eqb j sid) eqn:E; auto. apply Nat.eqb_eq in E; subst; auto.
  - destruct (fst (fin_of fiA s)); [|apply IH; auto].
    destruct (IH (set_nth sid (true, snd (fin_of fiA s)) fi)) as [H1 H2]; [rewrite set_nth_length; auto|].
    rewrite set_nth_length in H1. split; auto. intros j d. rewrite H2, !nth_set_nth.
    rewrite Nat.eqb_refl. apply Nat.ltb_lt in Hs. rewrite Hs. cbn.
    destruct (Nat.eqb j sid); reflexivity.
Qed.

Lemma add_reps_spec md fiA P : forall i fi, i + length P <= length fi -> (N.of_nat (i + length P) <= md)%N ->
  length (add_reps md fiA i P fi) = length fi /\
  forall j d, nth j (add_reps md fiA i P fi) d =
    if (Nat.leb i j && Nat.ltb j (i + length P))%bool then rep_fin fiA (nth (j - i) P []) (nth j fi d) else nth j fi d.
Proof.
  induction P as [|G P IH]; intros i fi Hl Hm; cbn [add_reps length] in *.
  - split; auto. intros j d. replace (Nat.ltb j (i + 0)) with (negb (Nat.leb i j)).
    + destruct (Nat.leb i j); reflexivity.
    + destruct (Nat.leb i j) eqn:E1, (Nat.ltb j (i + 0)) eqn:E2; auto.
      * apply Nat.leb_le in E1. apply Nat.ltb_lt in E2. lia.
      * apply Nat.leb_gt in E1. apply Nat.ltb_ge in E2. lia.
  - assert (Hw : N.to_nat (N.modulo (N.of_nat i) md) = i).
    { rewrite N.mod_small; [apply Nat2N.id|]. lia. }
    rewrite Hw. destruct (add_rep_spec fiA i G fi ltac:(lia)) as [H1 H2].
    destruct (IH (S i) (add_rep fiA i G fi)) as [H3 H4]; [lia|lia|].
    split; [lia|]. intros j d. rewrite H4, H2.
    destruct (Nat.leb (S i) j) eqn:E1; cbn [andb].
    + apply Nat.leb_le in E1. replace (Nat.leb i j) with true by (symmetry; apply Nat.leb_le; lia). cbn [andb].
      replace (Nat.ltb j (S i + length P)) with (Nat.ltb j (i + S (length P))) by (f_equal; lia).
      destruct (Nat.ltb j (i + S (length P))); auto.
      * replace (Nat.eqb j i) with false by (symmetry; apply Nat.eqb_neq; lia).
        replace (j - i) with (S (j - S i)) by lia. reflexivity.
      * replace (Nat.eqb j i) with false by (symmetry; apply Nat.eqb_neq; lia). reflexivity.
    + apply Nat.leb_gt in E1. destruct (Nat.eqb j i) eqn:E2.
      * apply Nat.eqb_eq in E2; subst j. rewrite Nat.leb_refl. cbn [andb].
        replace (Nat.ltb i (i + S (length P))) with true by (symmetry; apply Nat.ltb_lt; lia).
        rewrite Nat.sub_diag. reflexivity.
      * apply Nat.eqb_neq in E2. replace (Nat.leb i j) with false by (symmetry; apply Nat.leb_gt; lia). reflexivity.
Qed.

Lemma rep_fin_cls fiA G (c:option N) : G <> [] -> (forall s, In s G -> clsf (fin_of fiA s) = c) ->
  clsf (rep_fin fiA G (false, 0%N)) = c.
Proof.
  unfold rep_fin. intros Hne Hc. destruct c as [t|].
  - assert (Hgen : forall r, (clsf r = Some t \/ G <> []) ->
       clsf (fold_left (fun r s => if fst (fin_of fiA s) then (true, snd (fin_of fiA s)) else r) G r) = Some t).
    { clear Hne. induction G as [|s G IH]; intros r Hr; cbn [fold_left].
      - destruct Hr as [Hr|Hr]; [auto|congruence].
      - apply IH; [intros; apply Hc; cbn; auto|]. left.
        pose proof (Hc s (or_introl eq_refl)) as Hs. unfold clsf in Hs.
        destruct (fst (fin_of fiA s)); [|discriminate]. unfold clsf. cbn. exact Hs. }
    apply Hgen. auto.
  - assert (Hgen : forall r, clsf r = None ->
       clsf (fold_left (fun r s => if fst (fin_of fiA s) then (true, snd (fin_of fiA s)) else r) G r) = None).
    { clear Hne. induction G as [|s G IH]; intros r Hr; cbn [fold_left]; auto.
      apply IH; [intros; apply Hc; cbn; auto|].
      pose proof (Hc s (or_introl eq_refl)) as Hs. unfold clsf in Hs.
      destruct (fst (fin_of fiA s)); [discriminate|auto]. }
    apply Hgen. reflexivity.
Qed.

(* ====================================================================== *)
(* 9. merge_transitions                                                    *)
(* ====================================================================== *)
Definition keys (v:tvec) : list nat := map fst v.
Definition ved (v:tvec) (k:nat) (a:N) (t:nat) : Prop := exists m, In (k,m) v /\ tm_in m a t.

Lemma tm_merge_class_in c ts m a t : tm_in (tm_merge_class c ts m) a t <-> (a = c /\ In t ts) \/ tm_in m a t.
Proof.
  unfold tm_in. induction m as [|[c' l] m IH]; cbn [tm_merge_class].
  - cbn. split.
    + intros (l & [E|[]] & Hx). inversion E; subst. auto.
    + intros [[-> Hx]|(l & [] & _)]. exists ts. auto.
  - destruct (N.ltb c c').
    + cbn [In]. split.
      * intros (l0 & [E|Hin] & Hx); [inversion E; subst; auto|right; eauto].
      * intros [[-> Hx]|(l0 & Hin & Hx)]; [exists ts; auto|exists l0; auto].
    + destruct (N.eqb c c') eqn:E.
      * apply N.eqb_eq in E; subst c'. cbn [In]. unfold push_targets. split.
        -- intros (l0 & [E|Hin] & Hx).
           ++ inversion E; subst. apply fold_push_new_in in Hx as [Hx|Hx]; [right; exists l; auto|auto].
           ++ right; eauto.
        -- intros [[-> Hx]|(l0 & [E|Hin] & Hx)].
           ++ exists (fold_left push_new ts l). split; auto. apply fold_push_new_in; auto.
           ++ inversion E; subst. exists (fold_left push_new ts l0). split; auto. apply fold_push_new_in; auto.
           ++ exists l0; auto.
      * cbn [In]. split.
        -- intros (l0 & [E'|Hin] & Hx); [right; exists l0; auto|].
           destruct (proj1 IH (ex_intro _ l0 (conj Hin Hx))) as [H|(l1 & H1 & H2)]; [auto|right; exists l1; auto].
        -- intros [H|(l0 & [E'|Hin] & Hx)].
           ++ destruct (proj2 IH (or_introl H)) as (l1 & H1 & H2). exists l1; auto.
           ++ exists l0; auto.
           ++ destruct (proj2 IH (or_intror (ex_intro _ l0 (conj Hin Hx)))) as (l1 & H1 & H2). exists l1; auto.
Qed.

Lemma tm_in_nil a t : tm_in [] a t <-> False.
Proof. unfold tm_in. cbn. split; [intros (l & [] & _)|tauto]. Qed.
Lemma tm_in_cons c ts m a t : tm_in ((c,ts) :: m) a t <-> (a = c /\ In t ts) \/ tm_in m a t.
Proof.
  unfold tm_in. cbn [In]. split.
  - intros (l & [E|Hl] & Hx); [inversion E; subst; auto|right; eauto].
  - intros [[-> Hx]|(l & Hl & Hx)]; [exists ts; auto|exists l; auto].
Qed.

Lemma tm_merge_in mr ms a t : tm_in (tm_merge mr ms) a t <-> tm_in mr a t \/ tm_in ms a t.
Proof.
  unfold tm_merge. revert mr. induction ms as [|[c ts] ms IH]; intros mr; cbn [fold_left].
  - rewrite tm_in_nil. tauto.
  - rewrite IH, tm_merge_class_in, tm_in_cons. cbn [fst snd]. tauto.
Qed.

Lemma pos_of_app k v1 m v2 : ~ In k (keys v1) -> pos_of k (v1 ++ (k,m) :: v2) = Some (length v1).
Proof.
  induction v1 as [|[k' m'] v1 IH]; cbn; intros H.
  - rewrite Nat.eqb_refl. reflexivity.
  - destruct (Nat.eqb k' k) eqn:E; [apply Nat.eqb_eq in E; subst; tauto|]. rewrite IH; auto.
Qed.

Lemma merge_state_app s rep v1 mr v2 ms v3 :
  ~ In rep (keys v1) -> ~ In s (keys v1) -> s <> rep -> ~ In s (keys v2) ->
  merge_state s rep (v1 ++ (rep,mr) :: v2 ++ (s,ms) :: v3) = v1 ++ (rep, tm_merge mr ms) :: v2 ++ v3.
Proof.
  intros H1 H2 H3 H4.
  assert (E : v1 ++ (rep,mr) :: v2 ++ (s,ms) :: v3 = (v1 ++ (rep,mr) :: v2) ++ (s,ms) :: v3)
    by (rewrite <- app_assoc; reflexivity).
  assert (P1 : pos_of rep (v1 ++ (rep,mr) :: v2 ++ (s,ms) :: v3) = Some (length v1)) by (apply pos_of_app; auto).
  assert (P2 : pos_of s (v1 ++ (rep,mr) :: v2 ++ (s,ms) :: v3) = Some (length (v1 ++ (rep,mr) :: v2))).
  { rewrite E. apply pos_of_app. unfold keys. rewrite map_app, in_app_iff. cbn. intros [H|[H|H]]; auto. }
  unfold merge_state. rewrite P1, P2. rewrite nth_app_mid. cbn [snd].
  rewrite E. rewrite nth_app_mid, remove_at_app. cbn [snd]. rewrite <- app_assoc. cbn [app].
  rewrite nth_app_mid. cbn [fst]. apply set_nth_app.
Qed.

Lemma keys_inj v k m m' : NoDup (keys v) -> In (k,m) v -> In (k,m') v -> m = m'.
Proof.
  induction v as [|[k0 m0] v IH]; cbn; intros Hnd H1 H2; [tauto|]. inversion Hnd; subst.
  destruct H1 as [E1|H1], H2 as [E2|H2].
  - congruence.
  - inversion E1; subst. exfalso. apply H3. apply in_map_iff. exists (k,m'). auto.
  - inversion E2; subst. exfalso. apply H3. apply in_map_iff. exists (k,m). auto.
  - auto.
Qed.
Lemma keys_in v k : In k (keys v) <-> exists m, In (k,m) v.
Proof.
  unfold keys. rewrite in_map_iff. split.
  - intros ([k' m] & E & H). cbn in E; subst. eauto.
  - intros (m & H). exists (k,m). auto.
Qed.

Lemma tvec_split2 v rep s : StronglySorted lt (keys v) -> rep < s -> In rep (keys v) -> In s (keys v) ->
  exists v1 mr v2 ms v3, v = v1 ++ (rep,mr) :: v2 ++ (s,ms) :: v3.
Proof.
  intros Hs Hlt Hr Hsk. apply keys_in in Hsk as (ms & Hsk). apply in_split in Hsk as (va & v3 & ->).
  unfold keys in Hs, Hr. rewrite map_app in Hs, Hr. cbn [map fst] in Hs, Hr.
  apply SS_app_lt in Hs as [_ Hs]. apply in_app_iff in Hr as [Hr|[Hr|Hr]].
  - apply keys_in in Hr as (mr & Hr). apply in_split in Hr as (v1 & v2 & ->).
    exists v1, mr, v2, ms, v3. rewrite <- app_assoc. reflexivity.
  - lia.
  - specialize (Hs _ Hr). lia.
Qed.

Lemma in_5 {X} (x:X) v1 a v2 b v3 :
  In x (v1 ++ a :: v2 ++ b :: v3) <-> In x v1 \/ a = x \/ In x v2 \/ b = x \/ In x v3.
Proof. rewrite in_app_iff. cbn [In]. rewrite in_app_iff. cbn [In]. tauto. Qed.
Lemma in_4 {X} (x:X) v1 a v2 v3 :
  In x (v1 ++ a :: v2 ++ v3) <-> In x v1 \/ a = x \/ In x v2 \/ In x v3.
Proof. rewrite in_app_iff. cbn [In]. rewrite in_app_iff. tauto. Qed.

Lemma merge_state_spec s rep v : StronglySorted lt (keys v) -> rep < s -> In rep (keys v) -> In s (keys v) ->
  StronglySorted lt (keys (merge_state s rep v))
  /\ (forall k, In k (keys (merge_state s rep v)) <-> In k (keys v) /\ k <> s)
  /\ (forall k a t, ved (merge_state s rep v) k a t <-> (k <> s /\ ved v k a t) \/ (k = rep /\ ved v s a t)).
Proof.
  intros Hs Hlt Hr Hsk. destruct (tvec_split2 v rep s Hs Hlt Hr Hsk) as (v1 & mr & v2 & ms & v3 & ->).
  pose proof (SS_lt_NoDup _ Hs) as Hnd.
  assert (Hk : keys (v1 ++ (rep,mr) :: v2 ++ (s,ms) :: v3) = keys v1 ++ rep :: keys v2 ++ s :: keys v3).
  { unfold keys. rewrite map_app. cbn [map fst]. rewrite map_app. reflexivity. }
  rewrite Hk in Hs, Hnd.
  apply NoDup_app_elim in Hnd as (_ & Hnd2 & Hd1).
  inversion Hnd2 as [|? ? Hr2 Hnd3]; subst. apply NoDup_app_elim in Hnd3 as (_ & Hnd4 & Hd2).
  inversion Hnd4 as [|? ? Hs3 _]; subst.
  assert (N1 : ~ In rep (keys v1)). { intros H. apply (Hd1 _ H). cbn; auto. }
  assert (N2 : ~ In s (keys v1)). { intros H. apply (Hd1 _ H). cbn. rewrite in_app_iff. cbn; auto. }
  assert (N3 : ~ In s (keys v2)). { intros H. apply (Hd2 _ H). cbn; auto. }
  rewrite merge_state_app; auto; [|lia].
  assert (Hk' : keys (v1 ++ (rep, tm_merge mr ms) :: v2 ++ v3) = keys v1 ++ rep :: keys v2 ++ keys v3).
  { unfold keys. rewrite map_app. cbn [map fst]. rewrite map_app. reflexivity. }
  split; [|split].
  - rewrite Hk'. replace (keys v1 ++ rep :: keys v2 ++ s :: keys v3) with ((keys v1 ++ rep :: keys v2) ++ s :: keys v3) in Hs
      by (rewrite <- app_assoc; reflexivity).
    apply SS_app_remove in Hs. rewrite <- app_assoc in Hs. exact Hs.
  - intros k. rewrite Hk, Hk'. rewrite !in_app_iff. cbn [In]. rewrite !in_app_iff. cbn [In]. split.
    + intros [H|[H|[H|H]]]; (split; [tauto|]); intros ->; try tauto. lia.
    + intros [[H|[H|[H|[H|H]]]] Hne]; try tauto. congruence.
  - intros k a t. unfold ved. split.
    + intros (m & Hin & Ht). rewrite in_4 in Hin.
      destruct Hin as [Hin|[E|[Hin|Hin]]].
      * left. split; [intros ->; apply N2; apply keys_in; eauto|]. exists m. rewrite in_5. auto.
      * inversion E; subst. apply tm_merge_in in Ht as [Ht|Ht].
        -- left. split; [lia|]. exists mr. rewrite in_5. auto.
        -- right. split; auto. exists ms. rewrite in_5. auto 10.
      * left. split; [intros ->; apply N3; apply keys_in; eauto|]. exists m. rewrite in_5. auto.
      * left. split; [intros ->; apply Hs3; apply keys_in; eauto|]. exists m. rewrite in_5. auto 10.
    + intros [(Hne & m & Hin & Ht)|(-> & m & Hin & Ht)].
      * rewrite in_5 in Hin.
        destruct Hin as [Hin|[E|[Hin|[E|Hin]]]].
        -- exists m. rewrite in_4. auto.
        -- inversion E; subst. exists (tm_merge m ms). split; [rewrite in_4; auto|]. apply tm_merge_in; auto.
        -- exists m. rewrite in_4. auto.
        -- inversion E; subst. congruence.
        -- exists m. rewrite in_4. auto 10.
      * assert (m = ms).
        { apply (keys_inj (v1 ++ (rep,mr) :: v2 ++ (s,ms) :: v3) s); auto.
          - rewrite Hk. apply SS_lt_NoDup; auto.
          - rewrite in_5. auto 10. }
        subst. exists (tm_merge mr ms). split; [rewrite in_4; auto|]. apply tm_merge_in; auto.
Qed.

Lemma merge_rest_spec rep rest : forall v,
  StronglySorted lt (keys v) -> NoDup rest -> (forall s, In s rest -> rep < s) ->
  In rep (keys v) -> (forall s, In s rest -> In s (keys v)) ->
  let v' := fold_left (fun v s => merge_state s rep v) rest v in
  StronglySorted lt (keys v')
  /\ (forall k, In k (keys v') <-> In k (keys v) /\ ~ In k rest)
  /\ (forall k a t, ved v' k a t <-> ~ In k rest /\ (ved v k a t \/ (k = rep /\ exists s, In s rest /\ ved v s a t))).
Proof.
  induction rest as [|s rest IH]; intros v Hs Hnd Hlt Hr Hin; cbn [fold_left].
  - split; auto. split.
    + intros k. cbn. tauto.
    + intros k a t. cbn. split; [auto|]. intros [_ [H|(_ & s & [] & _)]]. auto.
  - inversion Hnd as [|? ? Hns Hnd']; subst.
    destruct (merge_state_spec s rep v Hs (Hlt s (or_introl eq_refl)) Hr (Hin s (or_introl eq_refl))) as (S1 & S2 & S3).
    pose proof (Hlt s (or_introl eq_refl)) as Hrs.
    destruct (IH (merge_state s rep v) S1 Hnd') as (T1 & T2 & T3).
    + intros s' Hs'. apply Hlt. cbn; auto.
    + apply S2. split; auto. lia.
    + intros s' Hs'. apply S2. split; [apply Hin; cbn; auto|]. intros ->. auto.
    + split; auto. split.
      * intros k. rewrite T2, S2. cbn [In]. split.
        -- intros [[H1 H2] H3]. split; auto. intros [E|H]; auto.
        -- intros [H1 H2]. repeat split; auto.
      * assert (Hv1 : forall s' a t, In s' rest -> (ved (merge_state s rep v) s' a t <-> ved v s' a t)).
        { intros s' a t Hs'. rewrite S3. pose proof (Hlt s' (or_intror Hs')) as Hlt'. split.
          - intros [[_ H]|[E _]]; auto. lia.
          - intros H0. left. split; auto. intros ->. auto. }
        intros k a t. rewrite T3, S3. cbn [In]. split.
        -- intros (H1 & [[(H2 & H3)|(H2 & H3)]|(H2 & s' & H3 & H4)]).
           ++ split; [intros [E|H]; auto|]. auto.
           ++ split; [intros [E|H]; auto; lia|]. right. split; auto. exists s. auto.
           ++ split; [intros [E|H]; auto; lia|]. right. split; auto. exists s'. split; auto. apply (Hv1 s' a t H3). exact H4.
        -- intros (H1 & [H2|(H2 & s' & [E|H3] & H4)]).
           ++ split; [auto|]. left. left. split; auto.
           ++ subst s'. split; [auto|]. left. right. auto.
           ++ split; [auto|]. right. split; auto. exists s'. split; auto. apply (Hv1 s' a t H3). exact H4.
Qed.

Lemma merge_group_spec v G :
  StronglySorted lt (keys v) -> G <> [] -> StronglySorted lt G -> (forall x, In x G -> In x (keys v)) ->
  let v' := merge_group v G in
  StronglySorted lt (keys v')
  /\ (forall k, In k (keys v') <-> In k (keys v) /\ ~ In k (tl G))
  /\ (forall k a t, ved v' k a t <->
        ~ In k (tl G) /\ (ved v k a t \/ (k = hd 0 G /\ exists s, In s (tl G) /\ ved v s a t))).
Proof.
  intros Hs Hne HG Hin. destruct G as [|rep rest]; [congruence|]. cbn [hd tl].
  inversion HG as [|? ? HG' Hf]; subst. rewrite Forall_forall in Hf.
  assert (E : merge_group v (rep :: rest) = fold_left (fun v s => merge_state s rep v) rest v).
  { unfold merge_group. destruct (Nat.eqb (length (rep :: rest)) 1) eqn:E; auto.
    apply Nat.eqb_eq in E. destruct rest; [reflexivity|discriminate]. }
  cbv zeta. rewrite E. apply merge_rest_spec; auto.
  - apply SS_lt_NoDup; auto.
  - apply Hin. cbn; auto.
  - intros s H. apply Hin. cbn; auto.
Qed.

Lemma in_tl {X} (x:X) l : In x (tl l) -> In x l.
Proof. destruct l; cbn; auto. Qed.
Lemma in_hd l : l <> [] -> In (hd 0 l) l.
Proof. destruct l; cbn; [congruence|auto]. Qed.

Lemma merge_transitions_spec P : forall v,
  StronglySorted lt (keys v) -> (forall G, In G P -> G <> [] /\ StronglySorted lt G) ->
  NoDup (concat P) -> (forall x, In x (concat P) -> In x (keys v)) ->
  let v' := merge_transitions P v in
  StronglySorted lt (keys v')
  /\ (forall k, In k (keys v') <-> In k (keys v) /\ forall G, In G P -> ~ In k (tl G))
  /\ (forall k a t, ved v' k a t <->
        (forall G, In G P -> ~ In k (tl G)) /\
        (ved v k a t \/ exists G, In G P /\ k = hd 0 G /\ exists s, In s (tl G) /\ ved v s a t)).
Proof.
  unfold merge_transitions. induction P as [|G P IH]; intros v Hs HP Hnd Hin; cbn [fold_left].
  - split; auto. split.
    + intros k. cbn. tauto.
    + intros k a t. cbn. split; [auto|]. intros [_ [H|(G & [] & _)]]. auto.
  - cbn [concat] in Hnd, Hin. apply NoDup_app_elim in Hnd as (HndG & HndP & Hd).
    destruct (HP G (or_introl eq_refl)) as [HGne HGs].
    destruct (merge_group_spec v G Hs HGne HGs) as (S1 & S2 & S3).
    { intros x Hx. apply Hin. rewrite in_app_iff. auto. }
    assert (HdP : forall x, In x (concat P) -> ~ In x G). { intros x Hx HxG. apply (Hd x HxG Hx). }
    destruct (IH (merge_group v G) S1) as (T1 & T2 & T3); auto.
    + intros G' HG'. apply HP. cbn; auto.
    + intros x Hx. apply S2. split; [apply Hin; rewrite in_app_iff; auto|].
      intros Hx'. apply (HdP x Hx). apply in_tl; auto.
    + split; auto. split.
      * intros k. rewrite T2, S2. cbn [In]. split.
        -- intros [[H1 H2] H3]. split; auto. intros G' [<-|HG']; auto.
        -- intros [H1 H2]. repeat split; auto.
      * assert (Hv1 : forall G' s a t, In G' P -> In s (tl G') -> (ved (merge_group v G) s a t <-> ved v s a t)).
        { intros G' s a t HG' Hs'. rewrite S3.
          assert (HsP : In s (concat P)). { apply in_concat_iff. exists G'. split; auto. apply in_tl; auto. }
          pose proof (HdP s HsP) as HsG. split.
          - intros [_ [H|[E _]]]; auto. exfalso. apply HsG. rewrite E. apply in_hd; auto.
          - intros H0. split; [intros Hx; apply HsG; apply in_tl; auto|]. auto. }
        intros k a t. rewrite T3, S3. cbn [In]. split.
        -- intros (H1 & [(H2 & [H3|(H3 & s & H4 & H5)])|(G' & HG' & H3 & s & H4 & H5)]).
           ++ split; [intros G' [<-|HG']; auto|]. auto.
           ++ split; [intros G' [<-|HG']; auto|]. right. exists G. split; auto. split; auto. exists s. auto.
           ++ split.
              ** intros G'' [<-|HG'']; auto. intros Hk. apply (HdP k).
                 --- apply in_concat_iff. exists G'. split; auto. rewrite H3. apply in_hd. apply HP. cbn; auto.
                 --- apply in_tl; auto.
              ** right. exists G'. split; auto. split; auto. exists s. split; auto. apply (Hv1 G' s a t HG' H4). exact H5.
        -- intros (H1 & [H2|(G' & [<-|HG'] & H3 & s & H4 & H5)]).
           ++ split; [intros G' HG'; apply H1; auto|]. left. split; [apply H1; auto|]. auto.
           ++ split; [intros G' HG'; apply H1; auto|]. left. split; [apply H1; auto|]. right. split; auto. exists s. auto.
           ++ split; [intros G'' HG''; apply H1; auto|]. right. exists G'. split; auto. split; auto.
              exists s. split; auto. apply (Hv1 G' s a t HG' H4). exact H5.
Qed.

(* ====================================================================== *)
(* 10. renumber and the construction of the new transition lists           *)
(* ====================================================================== *)
Lemma push_edge_in es e x : In x (push_edge es e) <-> In x es \/ x = e.
Proof.
  unfold push_edge. destruct (existsb (edge_eqb e) es) eqn:E.
  - apply existsb_exists in E as (y & Hy & Ey). apply edge_eqb_eq in Ey. subst. split; [auto|intros [H| ->]; auto].
  - rewrite in_app_iff. cbn. split; [intros [H|[H|[]]]; auto|intros [H|H]; auto].
Qed.
Lemma fold_push_edge_in l : forall es x, In x (fold_left push_edge l es) <-> In x es \/ In x l.
Proof.
  induction l as [|e l IH]; intros es x; cbn [fold_left In]; [tauto|].
  rewrite IH, push_edge_in. split; [intros [[H|H]|H]; auto|intros [H|[H|H]]; auto].
Qed.

Lemma nth_repeat_nil {X} p k : nth p (repeat (@nil X) k) [] = [].
Proof. revert p; induction k; intros [|p]; cbn; auto. Qed.

Lemma add_entry_length st e : length (add_entry st e) = length st.
Proof. unfold add_entry. apply set_nth_length. Qed.

Lemma add_entries_spec v2 : forall st,
  length (fold_left add_entry v2 st) = length st /\
  forall p e, In e (nth p (fold_left add_entry v2 st) []) <->
     In e (nth p st []) \/ (p < length st /\ exists m, In (p,m) v2 /\ In e (tm_edges m)).
Proof.
  induction v2 as [|[k m] v2 IH]; intros st; cbn [fold_left].
  - split; auto. intros p e. split; [auto|intros [H|(_ & m & [] & _)]; auto].
  - destruct (IH (add_entry st (k,m))) as [H1 H2]. rewrite add_entry_length in H1.
    split; auto. intros p e. rewrite H2. rewrite add_entry_length. unfold add_entry. cbn [fst snd].
    rewrite nth_set_nth. cbn [In].
    destruct (Nat.eqb p k) eqn:E1; cbn [andb].
    + apply Nat.eqb_eq in E1. subst p. destruct (Nat.ltb k (length st)) eqn:E2.
      * apply Nat.ltb_lt in E2. rewrite fold_push_edge_in. split.
        -- intros [[H|H]|(H3 & m' & H4 & H5)]; auto.
           ++ right. split; auto. exists m. auto.
           ++ right. split; auto. exists m'. auto.
        -- intros [H|(H3 & m' & [E|H4] & H5)]; auto.
           ++ inversion E; subst. auto.
           ++ right. split; auto. exists m'. auto.
      * apply Nat.ltb_ge in E2. split.
        -- intros [H|(H3 & _)]; [auto|lia].
        -- intros [H|(H3 & _)]; [auto|lia].
    + apply Nat.eqb_neq in E1. split.
      * intros [H|(H3 & m' & H4 & H5)]; auto. right. split; auto. exists m'. auto.
      * intros [H|(H3 & m' & [E|H4] & H5)]; auto.
        -- inversion E; subst. congruence.
        -- right. split; auto. exists m'. auto.
Qed.

Lemma tm_in_map (g:nat -> nat) (m:tmap) a p :
  tm_in (map (fun cl : N * list nat => (fst cl, map g (snd cl))) m) a p <-> exists t, tm_in m a t /\ g t = p.
Proof.
  unfold tm_in. split.
  - intros (l & Hl & Hp). apply in_map_iff in Hl as ([c l0] & E & Hl). cbn [fst snd] in E. inversion E; subst.
    apply in_map_iff in Hp as (t & <- & Ht). exists t. split; auto. exists l0. auto.
  - intros (t & (l & Hl & Ht) & <-). exists (map g l). split; [|apply in_map; auto].
    apply in_map_iff. exists (a,l). auto.
Qed.

Lemma update_transitions_spec P tms :
  length (update_transitions P tms) = length P /\
  forall p a p', In (a,p') (nth p (update_transitions P tms) []) <->
    p < length P /\ exists k t, ved (merge_transitions P (combine (seq 0 (length tms)) tms)) k a t
                               /\ gidx P k = p /\ gidx P t = p'.
Proof.
  unfold update_transitions. set (v1 := merge_transitions P (combine (seq 0 (length tms)) tms)).
  destruct (add_entries_spec (renumber P v1) (repeat [] (length P))) as [H1 H2].
  rewrite repeat_length in H1. split; auto. intros p a p'. rewrite H2, nth_repeat_nil, repeat_length. cbn [In].
  unfold renumber, ved. split.
  - intros [[]|(Hp & m & Hm & He)]. split; auto.
    apply in_map_iff in Hm as ([k m0] & E & Hm). cbn [fst snd] in E. inversion E; subst.
    apply tm_edges_in in He. apply tm_in_map in He as (t & Ht & <-). exists k, t. split; eauto.
  - intros (Hp & k & t & (m & Hm & Ht) & <- & <-). right. split; auto.
    exists (map (fun cl : N * list nat => (fst cl, map (gidx P) (snd cl))) m). split.
    + apply in_map_iff. exists (k,m). auto.
    + apply tm_edges_in. apply tm_in_map. eauto.
Qed.

Lemma keys_combine_seq (l:list tmap) : forall a, keys (combine (seq a (length l)) l) = seq a (length l).
Proof. unfold keys. induction l as [|m l IH]; intros a; cbn; auto. f_equal. apply IH. Qed.
Lemma in_combine_seq (l:list tmap) : forall a k m,
  In (k,m) (combine (seq a (length l)) l) <-> a <= k < a + length l /\ nth (k - a) l [] = m.
Proof.
  induction l as [|m0 l IH]; intros a k m; cbn [length seq combine In].
  - split; [tauto|lia].
  - rewrite IH. split.
    + intros [E|(H1 & H2)].
      * inversion E; subst. rewrite Nat.sub_diag. split; [lia|reflexivity].
      * split; [lia|]. replace (k - a) with (S (k - S a)) by lia. exact H2.
    + intros (H1 & H2). destruct (Nat.eq_dec k a) as [->|Hne].
      * left. rewrite Nat.sub_diag in H2. cbn in H2. congruence.
      * right. split; [lia|]. replace (k - a) with (S (k - S a)) in H2 by lia. exact H2.
Qed.
Lemma ved_combine tms k a t :
  ved (combine (seq 0 (length tms)) tms) k a t <-> k < length tms /\ tm_in (nth k tms []) a t.
Proof.
  unfold ved. split.
  - intros (m & Hm & Ht). apply in_combine_seq in Hm as (H1 & H2). rewrite Nat.sub_0_r in H2. subst. split; [lia|auto].
  - intros (H1 & H2). exists (nth k tms []). split; auto. apply in_combine_seq. rewrite Nat.sub_0_r. split; [lia|auto].
Qed.

(* ====================================================================== *)
(* 11. Assembly                                                            *)
(* ====================================================================== *)
Lemma wf_min_spec A : wf_min A = true ->
  length (fin A) = length (trans A) /\ 0 < length (trans A) /\
  forall q a t, In (a,t) (nth q (trans A) []) -> t < length (trans A).
Proof.
  unfold wf_min. intros H. apply andb_true_iff in H as [H H3]. apply andb_true_iff in H as [H1 H2].
  apply Nat.eqb_eq in H1. apply Nat.ltb_lt in H2. repeat split; auto.
  intros q a t Hin. rewrite forallb_forall in H3.
  destruct (Nat.lt_ge_cases q (length (trans A))) as [Hq|Hq]; [|rewrite nth_overflow in Hin; [destruct Hin|auto]].
  specialize (H3 _ (nth_In _ [] Hq)). rewrite forallb_forall in H3. specialize (H3 _ Hin). apply Nat.ltb_lt in H3. exact H3.
Qed.

Lemma same_group_unique (P:partition) G G' (x:nat) : NoDup (concat P) -> In G P -> In G' P -> In x G -> In x G' -> G = G'.
Proof.
  intros Hnd HG HG' Hx Hx'. destruct (In_nth P G [] HG) as (i & Hi & <-). destruct (In_nth P G' [] HG') as (j & Hj & <-).
  rewrite <- (gidx_unique P x i Hnd Hx), <- (gidx_unique P x j Hnd Hx'). reflexivity.
Qed.

Section Final.
Variable A : dfa.
Variable md : N.
Variable Pf : partition.
Let n := length (trans A).
Let tms := build_tmaps A.
Let P := reorder Pf.
Let g := gidx P.
Let B := create_from_partition md A Pf tms.

Hypothesis Hwf : wf_min A = true.
Hypothesis HPart : Part n (fin A) Pf.
Hypothesis Hne : forall G, In G Pf -> G <> [].
Hypothesis Hst : stable md tms Pf.
Hypothesis Hmd : (N.of_nat n <= md)%N.

Lemma fin_PartP : Part n (fin A) P.
Proof. apply (Part_perm n (fin A) Pf P); [apply reorder_perm|exact HPart]. Qed.
Lemma fin_neP G : In G P -> G <> [].
Proof. intros H. apply Hne. apply (Permutation_in _ (reorder_perm Pf)); auto. Qed.
Lemma fin_lenP : length P <= n.
Proof. apply (part_length n (fin A) P fin_PartP). apply fin_neP. Qed.
Lemma fin_lenPf : length Pf <= n.
Proof. apply (part_length n (fin A) Pf HPart Hne). Qed.
Lemma fin_ndP : NoDup (concat P).
Proof. apply (part_nodup n (fin A) P fin_PartP). Qed.
Lemma fin_inP q : q < n -> In q (concat P).
Proof. apply (part_in n (fin A) P q fin_PartP). Qed.
Lemma fin_inP' q : In q (concat P) -> q < n.
Proof. apply (part_in n (fin A) P q fin_PartP). Qed.
Lemma fin_n0 : 0 < n.
Proof. apply (wf_min_spec A Hwf). Qed.

Lemma fin_g0 : g 0 = 0.
Proof.
  unfold g, P. apply reorder_gidx0. apply (part_in n (fin A) Pf 0 HPart). apply fin_n0.
Qed.
Lemma fin_g_lt q : q < n -> g q < length P.
Proof. intros H. apply gidx_in. apply fin_inP; auto. Qed.

Lemma fin_lenB : length (trans B) = length P /\ length (fin B) = length P.
Proof.
  unfold B, create_from_partition. cbn [trans fin]. fold P. split.
  - apply update_transitions_spec.
  - destruct (add_reps_spec md (fin A) P 0 (repeat (false,0%N) (length P))) as [H _].
    + rewrite repeat_length. lia.
    + pose proof fin_lenP. cbn [plus]. lia.
    + rewrite H, repeat_length. reflexivity.
Qed.

Lemma fin_acc q t : q < n -> acc B (g q) t = acc A q t.
Proof.
  intros Hq. rewrite !acc_clsf. 
  assert (E : clsf (fin_of (fin B) (g q)) = clsf (fin_of (fin A) q)); [|rewrite E; reflexivity].
  unfold B, create_from_partition. cbn [fin]. fold P. unfold fin_of at 1.
  destruct (add_reps_spec md (fin A) P 0 (repeat (false,0%N) (length P))) as [_ H].
  { rewrite repeat_length. lia. }
  { pose proof fin_lenP. cbn [plus]. lia. }
  rewrite H. pose proof (fin_g_lt q Hq) as Hg. cbn [Nat.leb andb plus].
  replace (Nat.ltb (g q) (length P)) with true by (symmetry; apply Nat.ltb_lt; exact Hg).
  rewrite Nat.sub_0_r.
  replace (nth (g q) (repeat (false,0%N) (length P)) (false,0%N)) with (false,0%N).
  2:{ symmetry. apply nth_repeat. }
  destruct (gidx_in P q (fin_inP q Hq)) as [_ HqG]. fold g in HqG.
  apply rep_fin_cls.
  - apply fin_neP. apply nth_In. exact Hg.
  - intros s Hs. apply (part_cls n (fin A) P fin_PartP (nth (g q) P [])); auto. apply nth_In. exact Hg.
Qed.

Let v1 := merge_transitions P (combine (seq 0 (length tms)) tms).

Lemma fin_len_tms : length tms = n.
Proof. unfold tms, build_tmaps. apply map_length. Qed.

Lemma fin_v1 k a t : ved v1 k a t <->
  (forall G, In G P -> ~ In k (tl G)) /\
  ((k < n /\ In (a,t) (nth k (trans A) [])) \/
   exists G, In G P /\ k = hd 0 G /\ exists s, In s (tl G) /\ s < n /\ In (a,t) (nth s (trans A) [])).
Proof.
  destruct (merge_transitions_spec P (combine (seq 0 (length tms)) tms)) as (_ & _ & H).
  - rewrite keys_combine_seq. apply SS_seq.
  - intros G HG. split; [apply fin_neP; auto|apply (part_sorted n (fin A) P fin_PartP); auto].
  - apply fin_ndP.
  - intros x Hx. rewrite keys_combine_seq. apply in_seq. rewrite fin_len_tms. apply fin_inP' in Hx. lia.
  - fold v1 in H. rewrite H. 
    assert (E : forall k, ved (combine (seq 0 (length tms)) tms) k a t <-> k < n /\ In (a,t) (nth k (trans A) [])).
    { intros k'. rewrite ved_combine, fin_len_tms. unfold tms. rewrite build_tmaps_nth. reflexivity. }
    split.
    + intros (H1 & [H2|(G & HG & H3 & s & H4 & H5)]); split; auto.
      * left. apply E. exact H2.
      * right. exists G. split; auto. split; auto. exists s. split; auto. apply E. exact H5.
    + intros (H1 & [H2|(G & HG & H3 & s & H4 & H5)]); split; auto.
      * left. apply E. exact H2.
      * right. exists G. split; auto. split; auto. exists s. split; auto. apply E. exact H5.
Qed.

Lemma hd_notin_tl G : NoDup G -> ~ In (hd 0 G) (tl G).
Proof. destruct G; cbn; [tauto|]. intros H. inversion H; auto. Qed.

Lemma in_not_hd l q : In q l -> q <> hd 0 l -> In q (tl l).
Proof. destruct l; cbn; [tauto|]. intros [E|H] Hq; [congruence|auto]. Qed.

(* every edge of a member appears at the representative *)
Lemma fin_E1 q a t : q < n -> In (a,t) (nth q (trans A) []) -> exists k, g k = g q /\ ved v1 k a t.
Proof.
  intros Hq He. destruct (gidx_in P q (fin_inP q Hq)) as [Hg HqG]. fold g in Hg, HqG.
  set (G := nth (g q) P []) in *. assert (HG : In G P) by (apply nth_In; exact Hg).
  pose proof (fin_neP G HG) as HGne. pose proof (part_sorted n (fin A) P fin_PartP G HG) as HGs.
  pose proof (in_hd G HGne) as Hk. set (k := hd 0 G) in *.
  assert (HkP : In k (concat P)) by (apply in_concat_iff; eauto).
  exists k. split.
  - apply (gidx_same P k q fin_ndP HkP (fin_inP q Hq)). eauto.
  - apply fin_v1. split.
    + intros G' HG' Hk'. pose proof (same_group_unique P G G' k fin_ndP HG HG' Hk (in_tl _ _ Hk')) as E. subst G'.
      apply (hd_notin_tl G (SS_lt_NoDup _ HGs)). exact Hk'.
    + destruct (Nat.eq_dec q k) as [E|Hneq].
      * left. rewrite <- E. auto.
      * right. exists G. split; auto. split; auto. exists q. split; auto.
        apply in_not_hd; auto.
Qed.

(* every edge at a representative comes from a member *)
Lemma fin_E2 k a t : ved v1 k a t -> exists q, q < n /\ g q = g k /\ In (a,t) (nth q (trans A) []).
Proof.
  intros H. apply fin_v1 in H as (_ & [(H1 & H2)|(G & HG & H3 & s & H4 & H5 & H6)]).
  - exists k. auto.
  - exists s. split; auto. split; auto.
    assert (Hk : In k G). { rewrite H3. apply in_hd. apply fin_neP; auto. }
    apply (gidx_same P s k fin_ndP).
    + apply fin_inP; auto.
    + apply in_concat_iff; eauto.
    + exists G. split; auto. split; auto. apply in_tl; auto.
Qed.

Lemma fin_edges_B p a p' : In (a,p') (nth p (trans B) []) <->
  p < length P /\ exists k t, ved v1 k a t /\ g k = p /\ g t = p'.
Proof. unfold B, create_from_partition. cbn [trans]. fold P. apply update_transitions_spec. Qed.

Lemma fin_fwd q a q' : q < n -> In (a,q') (nth q (trans A) []) -> In (a, g q') (nth (g q) (trans B) []).
Proof.
  intros Hq He. apply fin_edges_B. split; [apply fin_g_lt; auto|].
  destruct (fin_E1 q a q' Hq He) as (k & Hk & Hv). exists k, q'. auto.
Qed.

Lemma same_group_Pf q q' : q < n -> q' < n -> g q = g q' -> gidx Pf q = gidx Pf q'.
Proof.
  intros Hq Hq' E. apply (gidx_same P q q' fin_ndP (fin_inP q Hq) (fin_inP q' Hq')) in E as (G & HG & H1 & H2).
  apply (gidx_same Pf q q' (part_nodup n (fin A) Pf HPart)).
  - apply (part_in n (fin A) Pf q HPart); auto.
  - apply (part_in n (fin A) Pf q' HPart); auto.
  - exists G. split; auto. apply (Permutation_in _ (reorder_perm Pf)); auto.
Qed.
Lemma same_group_P q q' : q < n -> q' < n -> gidx Pf q = gidx Pf q' -> g q = g q'.
Proof.
  intros Hq Hq' E.
  apply (gidx_same Pf q q' (part_nodup n (fin A) Pf HPart)) in E as (G & HG & H1 & H2).
  - apply (gidx_same P q q' fin_ndP (fin_inP q Hq) (fin_inP q' Hq')).
    exists G. split; auto. apply (Permutation_in _ (Permutation_sym (reorder_perm Pf))); auto.
  - apply (part_in n (fin A) Pf q HPart); auto.
  - apply (part_in n (fin A) Pf q' HPart); auto.
Qed.

Lemma find_group_inj t t' : t < n -> t' < n -> find_group md Pf t = find_group md Pf t' -> gidx Pf t = gidx Pf t'.
Proof.
  intros Ht Ht' E. unfold find_group in E.
  assert (H1 : gidx Pf t < length Pf) by (apply gidx_in; apply (part_in n (fin A) Pf t HPart); auto).
  assert (H2 : gidx Pf t' < length Pf) by (apply gidx_in; apply (part_in n (fin A) Pf t' HPart); auto).
  pose proof fin_lenPf. rewrite !N.mod_small in E by lia. lia.
Qed.

Lemma fin_bwd q a p' : q < n -> In (a,p') (nth (g q) (trans B) []) ->
  exists q', In (a,q') (nth q (trans A) []) /\ g q' = p'.
Proof.
  intros Hq He. apply fin_edges_B in He as (_ & k & t & Hv & Hk & Ht).
  destruct (fin_E2 k a t Hv) as (q2 & Hq2 & Hg2 & He2).
  pose proof (proj2 (proj2 (wf_min_spec A Hwf))) as Hrange. fold n in Hrange.
  assert (Ht_n : t < n) by (apply (Hrange q2 a t He2)).
  assert (Esig : sigP md tms Pf q2 = sigP md tms Pf q).
  { assert (Eg : gidx Pf q2 = gidx Pf q) by (apply same_group_Pf; auto; congruence).
    apply (gidx_same Pf q2 q (part_nodup n (fin A) Pf HPart)) in Eg as (G & HG & H1 & H2).
    - apply (Hst G); auto.
    - apply (part_in n (fin A) Pf q2 HPart); auto.
    - apply (part_in n (fin A) Pf q HPart); auto. }
  assert (Hin : In (a, find_group md Pf t) (sigP md tms Pf q2)).
  { unfold sigP. apply sig_of_in. exists t. split; auto. unfold tms. apply build_tmaps_nth. exact He2. }
  rewrite Esig in Hin. unfold sigP in Hin. apply sig_of_in in Hin as (t' & Ht' & Hfg).
  unfold tms in Ht'. apply build_tmaps_nth in Ht'.
  assert (Ht'_n : t' < n) by (apply (Hrange q a t' Ht')).
  exists t'. split; auto. rewrite <- Ht. apply same_group_P; auto. apply find_group_inj; auto.
Qed.

Theorem final_preserves tbl w t : accepts_tok tbl B w t <-> accepts_tok tbl A w t.
Proof.
  apply (quotient_preserves tbl A B g (fun q => q < n)).
  - apply fin_g0.
  - apply fin_n0.
  - intros q a q' _ He. apply (proj2 (proj2 (wf_min_spec A Hwf)) q a q' He).
  - intros q t' Hq. apply fin_acc; auto.
  - intros q a q' Hq He. apply fin_fwd; auto.
  - intros q a p' Hq He. apply fin_bwd; auto.
Qed.

Theorem final_run tbl w p : In p (run tbl B [0] w) <-> exists q, In q (run tbl A [0] w) /\ g q = p.
Proof.
  apply (quotient_run tbl A B g (fun q => q < n)).
  - apply fin_g0.
  - apply fin_n0.
  - intros q a q' _ He. apply (proj2 (proj2 (wf_min_spec A Hwf)) q a q' He).
  - intros q a q' Hq He. apply fin_fwd; auto.
  - intros q a p' Hq He. apply fin_bwd; auto.
Qed.
End Final.

(* ====================================================================== *)
(* 12. Theorems about `minimize`                                           *)
(* ====================================================================== *)
Lemma minimize_inv bits A B : minimize bits A = Some B ->
  wf_min A = true /\ exists Pf,
    refine_loop (length (trans A) + 2) (2 ^ N.of_nat bits)%N (build_tmaps A)
                (initial_partition (length (trans A)) (fin A)) = Some Pf
    /\ B = create_from_partition (2 ^ N.of_nat bits)%N A Pf (build_tmaps A).
Proof.
  unfold minimize, minimize_fuel. destruct (wf_min A); [|discriminate]. split; auto.
  destruct (refine_loop _ _ _ _) as [Pf|]; [|discriminate]. inversion H; subst. eauto.
Qed.

Lemma minimize_loop_facts bits A Pf : wf_min A = true ->
  refine_loop (length (trans A) + 2) (2 ^ N.of_nat bits)%N (build_tmaps A)
              (initial_partition (length (trans A)) (fin A)) = Some Pf ->
  Part (length (trans A)) (fin A) Pf /\ (forall G, In G Pf -> G <> []) /\
  stable (2 ^ N.of_nat bits)%N (build_tmaps A) Pf.
Proof.
  intros Hwf H. apply (refine_loop_spec (length (trans A)) (fin A) _ _ _ _ Pf) in H; auto.
  apply initial_partition_Part. apply (wf_min_spec A Hwf).
Qed.

(* Theorem 1, width hypothesis in N (usable with group_bits = 32) *)
Theorem minimize_preserves_N tbl bits A B :
  wf_min A = true -> (N.of_nat (length (trans A)) <= 2 ^ N.of_nat bits)%N ->
  minimize bits A = Some B ->
  forall w t, accepts_tok tbl B w t <-> accepts_tok tbl A w t.
Proof.
  intros Hwf Hmd H w t. apply minimize_inv in H as (_ & Pf & Hl & ->).
  destruct (minimize_loop_facts bits A Pf Hwf Hl) as (H1 & H2 & H3).
  apply final_preserves; auto.
Qed.

Lemma pow_nat_N n bits : n <= 2 ^ bits -> (N.of_nat n <= 2 ^ N.of_nat bits)%N.
Proof. intros H. change 2%N with (N.of_nat 2). rewrite <- Nat2N.inj_pow. lia. Qed.

Theorem minimize_preserves tbl bits A B :
  wf_min A = true -> length (trans A) <= 2 ^ bits ->
  minimize bits A = Some B ->
  forall w t, accepts_tok tbl B w t <-> accepts_tok tbl A w t.
Proof. intros Hwf Hmd. apply minimize_preserves_N; auto. apply pow_nat_N; auto. Qed.

(* Theorem 2: state 0 of A is mapped to state 0 of B, and the state sets reached in B are
   exactly the images of the state sets reached in A *)
Lemma state_map_eq bits A Pf :
  refine_loop (length (trans A) + 2) (2 ^ N.of_nat bits)%N (build_tmaps A)
              (initial_partition (length (trans A)) (fin A)) = Some Pf ->
  forall q, state_map bits A q = gidx (reorder Pf) q.
Proof. intros H q. unfold state_map, final_partition. rewrite H. reflexivity. Qed.

Theorem minimize_first_state tbl bits A B :
  wf_min A = true -> length (trans A) <= 2 ^ bits ->
  minimize bits A = Some B ->
  state_map bits A 0 = 0 /\
  (forall q, q < length (trans A) -> state_map bits A q < length (trans B)) /\
  forall w p, In p (run tbl B [0] w) <-> exists q, In q (run tbl A [0] w) /\ state_map bits A q = p.
Proof.
  intros Hwf Hmd H. apply pow_nat_N in Hmd. apply minimize_inv in H as (_ & Pf & Hl & ->).
  destruct (minimize_loop_facts bits A Pf Hwf Hl) as (H1 & H2 & H3).
  pose proof (state_map_eq bits A Pf Hl) as E. split; [|split].
  - rewrite E. apply (fin_g0 A Pf); auto.
  - intros q Hq. rewrite E. rewrite (proj1 (fin_lenB A _ Pf H1 H2 Hmd)). apply (fin_g_lt A Pf); auto.
  - intros w p. rewrite (final_run A _ Pf Hwf H1 H2 H3 Hmd tbl w p).
    split; intros (q & Hq & Hg); exists q; split; auto; rewrite E in *; auto.
Qed.

(* Theorem 3 (no width hypothesis) *)
Lemma add_rep_length fiA sid G : forall fi, length (add_rep fiA sid G fi) = length fi.
Proof.
  unfold add_rep. induction G as [|s G IH]; intros fi; cbn [fold_left]; auto.
  destruct (fst (fin_of fiA s)); rewrite IH; auto. apply set_nth_length.
Qed.
Lemma add_reps_length md fiA P : forall i fi, length (add_reps md fiA i P fi) = length fi.
Proof. induction P as [|G P IH]; intros i fi; cbn [add_reps]; auto. rewrite IH. apply add_rep_length. Qed.

Theorem minimize_not_larger bits A B :
  minimize bits A = Some B ->
  length (trans B) <= length (trans A) /\ length (trans B) = length (fin B).
Proof.
  intros H. apply minimize_inv in H as (Hwf & Pf & Hl & ->).
  destruct (minimize_loop_facts bits A Pf Hwf Hl) as (H1 & H2 & H3).
  unfold create_from_partition. cbn [trans fin].
  rewrite (proj1 (update_transitions_spec _ _)), add_reps_length, repeat_length. split; auto.
  rewrite (Permutation_length (reorder_perm Pf)). apply (part_length _ _ _ H1 H2).
Qed.

(* the fuel `number of states + 2` always suffices *)
Theorem minimize_total bits A : wf_min A = true -> exists B, minimize bits A = Some B.
Proof.
  intros Hwf. unfold minimize, minimize_fuel. rewrite Hwf.
  pose proof (refine_loop_total (length (trans A)) (fin A) (2 ^ N.of_nat bits)%N (build_tmaps A)
                (initial_partition (length (trans A)) (fin A))) as H.
  destruct (refine_loop _ _ _ _) as [Pf|]; [eauto|].
  exfalso. apply H; auto. apply initial_partition_Part. apply (wf_min_spec A Hwf).
Qed.
Theorem minimize_none_iff bits A : minimize bits A = None <-> wf_min A = false.
Proof.
  split.
  - intros H. destruct (wf_min A) eqn:E; auto. destruct (minimize_total bits A E) as (B & HB). congruence.
  - intros H. unfold minimize, minimize_fuel. rewrite H. reflexivity.
Qed.

(* the result of a successful run always passes the certificate test *)
Lemma accepts_tokb_iff tbl A w t : accepts_tokb tbl A w t = true <-> accepts_tok tbl A w t.
Proof.
  unfold accepts_tokb, accepts_tok. rewrite existsb_exists. reflexivity.
Qed.

(* ====================================================================== *)
(* 13. Examples                                                            *)
(* ====================================================================== *)
(* states 1,2 and states 3,4 are merged *)
Lemma ex_min_merge :
  wf_min ex_min_A = true /\ minimize 32 ex_min_A = Some ex_min_B
  /\ map (state_map 32 ex_min_A) [0;1;2;3;4] = [0;1;1;2;2]
  /\ quotient_ok ex_min_A ex_min_B (state_map 32 ex_min_A) = true.
Proof. vm_compute. repeat split; reflexivity. Qed.

(* with 2-bit group ids the six groups 0..5 get the ids 0,1,2,3,0,1: the accepting flag of group 5
   lands on state 1, and the result accepts "a" instead of "aaaaa" *)
Lemma ex_wrap_miscompiles :
  wf_min ex_chain6 = true /\ 2 ^ 2 < length (trans ex_chain6) /\
  exists B, minimize 2 ex_chain6 = Some B
    /\ (accepts_tok ex_min_tbl B [97]%N 0%N /\ ~ accepts_tok ex_min_tbl ex_chain6 [97]%N 0%N)
    /\ (~ accepts_tok ex_min_tbl B [97;97;97;97;97]%N 0%N /\ accepts_tok ex_min_tbl ex_chain6 [97;97;97;97;97]%N 0%N)
    /\ minimize 32 ex_chain6 = Some ex_chain6.
Proof.
  split; [reflexivity|]. split; [cbn; lia|].
  destruct (minimize 2 ex_chain6) as [B|] eqn:E; [|vm_compute in E; discriminate].
  vm_compute in E. injection E as <-. eexists. split; [reflexivity|].
  rewrite <- !accepts_tokb_iff. vm_compute. repeat split; auto; discriminate.
Qed.
