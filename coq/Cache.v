(* Cache.v — model of the process-wide scanner cache (scanner_cache.rs, scanner_builder.rs).
   Definitions only; proofs are in CacheProofs.v, property statements in Properties/C13.v and
   Properties/C14.v.

   What is modelled.  `ScannerBuilder::build` is
       SCANNER_CACHE.write().unwrap().get(&self.scanner_modes)
   and `ScannerCache::get(&mut self, modes)` looks `modes` up in a map keyed by the WHOLE
   `Vec<ScannerMode>` (derived `PartialEq, Eq, Hash` on ScannerMode, Pattern, Lookahead), returns a
   clone of the stored value on a hit, and on a miss evaluates `modes.try_into()?` (the uncached
   compilation; `?` returns the error before anything is inserted), inserts and returns a clone.

   * The key is the configuration record of Json.v (`config = list mode`; names, pattern texts,
     token types, lookahead presence / polarity / text, transitions, all orders) compared with the
     structural boolean equality `config_eqb`.  That the Rust key has exactly these fields and
     that its equality is the derived one is read off the source on every run (Gen/CacheFacts.v).
   * The uncached build is a Section variable `compile : config -> option compiled` (None = the
     build returns an error).  That the uncached build IS a function of the configuration is what
     the correspondence check validates (two uncached builds of one configuration are compared in
     every step of every history).
   * A hash map is modelled as an association list; a clone of the stored value as the value.
   * For C14 a build is ONE atomic step on the cache.  This atomicity (the write lock is taken in
     the same expression as `.get(..)` and therefore held across lookup + compile + insert) is a
     PREMISE READ FROM THE SOURCE by the translator (Gen/CacheLockFacts.v), it is not proved; data
     races on the `unsafe` Arc::as_ptr dereference, lock poisoning and deadlocks are outside this
     model and are observed by the thread stress run. *)
From Scnr Require Import Base Json.
Local Open Scope N_scope.

(* ------------------------------------------------------------------------------------------ *)
(* structural equality of configurations = the derived PartialEq of Vec<ScannerMode>           *)
(* ------------------------------------------------------------------------------------------ *)

Definition option_eqb {A} (f:A -> A -> bool) (a b:option A) : bool :=
  match a, b with
  | None, None => true
  | Some x, Some y => f x y
  | _, _ => false
  end.

Fixpoint list_eqb {A} (f:A -> A -> bool) (a b:list A) : bool :=
  match a, b with
  | [], [] => true
  | x::a', y::b' => f x y && list_eqb f a' b'
  | _, _ => false
  end.

Definition lookahead_eqb (a b:lookahead) : bool :=
  Bool.eqb (la_positive a) (la_positive b) && nlist_eqb (la_pattern a) (la_pattern b).

Definition pattern_eqb (a b:pattern) : bool :=
  nlist_eqb (p_pattern a) (p_pattern b) && N.eqb (p_token a) (p_token b)
  && option_eqb lookahead_eqb (p_lookahead a) (p_lookahead b).

Definition transition_eqb (a b:N * N) : bool := N.eqb (fst a) (fst b) && N.eqb (snd a) (snd b).

Definition mode_eqb (a b:mode) : bool :=
  nlist_eqb (m_name a) (m_name b) && list_eqb pattern_eqb (m_patterns a) (m_patterns b)
  && list_eqb transition_eqb (m_transitions a) (m_transitions b).

Definition config_eqb (a b:config) : bool := list_eqb mode_eqb a b.

(* ------------------------------------------------------------------------------------------ *)
(* the cache, parameterised by the key equality (config_eqb for the real cache; the parameter   *)
(* exists so that the sensitivity of the theorem to a coarser key can be stated)                *)
(* ------------------------------------------------------------------------------------------ *)

Section CacheModel.
Variable compiled : Type.
Variable compile : config -> option compiled.
Variable key_eqb : config -> config -> bool.

Definition cache := list (config * compiled).

Fixpoint lookup_with (c:cache) (cfg:config) : option compiled :=
  match c with
  | [] => None
  | (k, v) :: c' => if key_eqb k cfg then Some v else lookup_with c' cfg
  end.

(* ScannerCache::get under the write lock: (new cache, result) *)
Definition build_with (c:cache) (cfg:config) : cache * option compiled :=
  match lookup_with c cfg with
  | Some v => (c, Some v)
  | None => match compile cfg with
            | Some v => ((cfg, v) :: c, Some v)
            | None => (c, None)
            end
  end.

Fixpoint fold_builds_with (c:cache) (cfgs:list config) : cache * list (option compiled) :=
  match cfgs with
  | [] => (c, [])
  | cfg :: rest =>
      let '(c1, r) := build_with c cfg in
      let '(c2, rs) := fold_builds_with c1 rest in
      (c2, r :: rs)
  end.
End CacheModel.

Section Cache.
Variable compiled : Type.
Variable compile : config -> option compiled.

Definition lookup : cache compiled -> config -> option compiled := lookup_with compiled config_eqb.
Definition build : cache compiled -> config -> cache compiled * option compiled :=
  build_with compiled compile config_eqb.
Definition fold_builds : cache compiled -> list config -> cache compiled * list (option compiled) :=
  fold_builds_with compiled compile config_eqb.

(* was the step answered from the cache? (evidence only) *)
Definition is_hit (c:cache compiled) (cfg:config) : bool :=
  match lookup c cfg with Some _ => true | None => false end.
Fixpoint fold_hits (c:cache compiled) (cfgs:list config) : list bool :=
  match cfgs with
  | [] => []
  | cfg :: rest => is_hit c cfg :: fold_hits (fst (build c cfg)) rest
  end.

(* every entry of the cache is what the uncached build returns for its key *)
Definition cache_ok (c:cache compiled) : Prop := forall k v, In (k, v) c -> compile k = Some v.

(* ---------------------------------------------------------------------------------------- *)
(* threads: every thread has a list of configurations it builds, in program order; a schedule *)
(* names the thread that performs the next (atomic) build step                                 *)
(* ---------------------------------------------------------------------------------------- *)

(* the next step of thread i: its first pending configuration and the remaining work *)
Fixpoint pop (i:nat) (rem:list (list config)) : option (config * list (list config)) :=
  match i, rem with
  | O, (cfg :: rest) :: others => Some (cfg, rest :: others)
  | S i', t :: others =>
      match pop i' others with
      | Some (cfg, others') => Some (cfg, t :: others')
      | None => None
      end
  | _, _ => None
  end.

Definition all_done (rem:list (list config)) : bool :=
  forallb (fun t => match t with [] => true | _ => false end) rem.

(* the sequential history (thread, configuration) a schedule denotes; None when the schedule is
   not an interleaving of the threads: it asks a finished or non-existing thread for a step, or
   it ends while some thread still has work *)
Fixpoint linearize (sched:list nat) (rem:list (list config)) : option (list (nat * config)) :=
  match sched with
  | [] => if all_done rem then Some [] else None
  | i :: s =>
      match pop i rem with
      | Some (cfg, rem') => option_map (cons (i, cfg)) (linearize s rem')
      | None => None
      end
  end.

Definition interleaving (sched:list nat) (threads:list (list config)) : Prop :=
  exists h, linearize sched threads = Some h.
Definition interleavingb (sched:list nat) (threads:list (list config)) : bool :=
  match linearize sched threads with Some _ => true | None => false end.

(* running a schedule on the shared cache: the trace of (thread, result) in execution order.
   A step of a thread without pending work is skipped (it cannot occur in an interleaving). *)
Fixpoint run_schedule (c:cache compiled) (sched:list nat) (rem:list (list config))
  : cache compiled * list (nat * option compiled) :=
  match sched with
  | [] => (c, [])
  | i :: s =>
      match pop i rem with
      | Some (cfg, rem') =>
          let '(c1, r) := build c cfg in
          let '(c2, tr) := run_schedule c1 s rem' in
          (c2, (i, r) :: tr)
      | None => run_schedule c s rem
      end
  end.

Definition results_of {A} (i:nat) (tr:list (nat * A)) : list A :=
  map snd (filter (fun e => Nat.eqb (fst e) i) tr).
Definition results_per_thread {A} (n:nat) (tr:list (nat * A)) : list (list A) :=
  map (fun i => results_of i tr) (seq 0 n).
End Cache.

(* ------------------------------------------------------------------------------------------ *)
(* evaluation on generated histories: `compile` given as a finite table                        *)
(* ------------------------------------------------------------------------------------------ *)

(* table: configuration -> outcome id of the uncached build (None = the build fails); a
   configuration that is not in the table fails *)
Definition table_compile (tbl:list (config * option N)) (cfg:config) : option N :=
  match find (fun e => config_eqb (fst e) cfg) tbl with
  | Some e => snd e
  | None => None
  end.

(* printable results: 0 = error, k+1 = outcome id k *)
Definition enc_result (r:option N) : N := match r with None => 0 | Some k => k + 1 end.

(* per step (encoded result, hit) *)
Definition run_history (tbl:list (config * option N)) (cfgs:list config) : list (N * bool) :=
  combine (map enc_result (snd (fold_builds N (table_compile tbl) [] cfgs)))
          (fold_hits N (table_compile tbl) [] cfgs).

(* per thread the encoded results of a schedule (empty list when the schedule is no interleaving) *)
Definition run_threads (tbl:list (config * option N)) (sched:list N) (threads:list (list config))
  : bool * list (list N) :=
  let s := map N.to_nat sched in
  (interleavingb s threads,
   map (map enc_result)
       (results_per_thread (List.length threads) (snd (run_schedule N (table_compile tbl) [] s threads)))).

(* a key equality that ignores lookaheads (the coarser key of C13_key_must_be_whole) *)
Definition pattern_eqb_nola (a b:pattern) : bool :=
  nlist_eqb (p_pattern a) (p_pattern b) && N.eqb (p_token a) (p_token b).
Definition mode_eqb_nola (a b:mode) : bool :=
  nlist_eqb (m_name a) (m_name b) && list_eqb pattern_eqb_nola (m_patterns a) (m_patterns b)
  && list_eqb transition_eqb (m_transitions a) (m_transitions b).
Definition config_eqb_nola (a b:config) : bool := list_eqb mode_eqb_nola a b.
