(* SpecExt.v — the executable specification depends on the leaf predicate and the regular expressions
   only through the languages they denote: language-equivalent patterns over different leaf
   predicates give the same candidates, the same chosen token, the same scanner. *)
From Scnr Require Import Base Regex Automaton FindFrom Spec SpecRun Iter IterRun ExtProofs.

Section E.
Variables tbl1 tbl2 : N -> N -> bool.
Definition req (r1 r2:re) : Prop := forall w, mt tbl1 r1 w <-> mt tbl2 r2 w.

Lemma req_nullable r1 r2 : req r1 r2 -> nullable r1 = nullable r2.
Proof.
  intros H. destruct (nullable r1) eqn:E1, (nullable r2) eqn:E2; try reflexivity.
  - apply (nullable_spec tbl1) in E1. apply H in E1. apply (nullable_spec tbl2) in E1. congruence.
  - apply (nullable_spec tbl2) in E2. apply H in E2. apply (nullable_spec tbl1) in E2. congruence.
Qed.
Lemma req_deriv r1 r2 c : req r1 r2 -> req (deriv tbl1 c r1) (deriv tbl2 c r2).
Proof. intros H w. rewrite !deriv_spec. apply H. Qed.

Lemma longest_from_ext : forall s r1 r2 acc best, req r1 r2 ->
  longest_from tbl1 r1 s acc best = longest_from tbl2 r2 s acc best.
Proof.
  induction s as [|c s IH]; intros r1 r2 acc best H; cbn [longest_from]; [reflexivity|].
  rewrite (req_nullable _ _ (req_deriv _ _ c H)). apply IH. apply req_deriv. exact H.
Qed.

Definition laeq (l1 l2:option (bool * re)) : Prop :=
  match l1, l2 with
  | None, None => True
  | Some (p1, r1), Some (p2, r2) => p1 = p2 /\ req r1 r2
  | _, _ => False
  end.
Lemma la_spec_ext l1 l2 rest : laeq l1 l2 -> la_spec tbl1 l1 rest = la_spec tbl2 l2 rest.
Proof.
  unfold laeq, la_spec, longest. destruct l1 as [[p1 r1]|], l2 as [[p2 r2]|]; try tauto.
  intros (-> & H). rewrite (longest_from_ext rest r1 r2 0 None H). reflexivity.
Qed.

Definition pateq (p1 p2:spat) : Prop := sp_tok p1 = sp_tok p2 /\ req (sp_re p1) (sp_re p2) /\ laeq (sp_la p1) (sp_la p2).

Lemma cands_pat_ext i p1 p2 : sp_tok p1 = sp_tok p2 -> laeq (sp_la p1) (sp_la p2) ->
  forall s r1 r2 e, req r1 r2 -> cands_pat tbl1 i p1 r1 s e = cands_pat tbl2 i p2 r2 s e.
Proof.
  intros Ht Hl. induction s as [|c s IH]; intros r1 r2 e H; cbn [cands_pat]; [reflexivity|].
  rewrite (req_nullable _ _ (req_deriv _ _ c H)), (la_spec_ext _ _ s Hl), Ht.
  rewrite (IH _ _ (e + len_utf8 c) (req_deriv _ _ c H)). reflexivity.
Qed.
Lemma cands_from_ext : forall ps1 ps2 i s, Forall2 pateq ps1 ps2 -> cands_from tbl1 i ps1 s = cands_from tbl2 i ps2 s.
Proof.
  induction ps1 as [|p1 ps1 IH]; intros ps2 i s H; inversion H as [|? p2 ? ps2' Hp Hr]; subst; cbn [cands_from]; [reflexivity|].
  destruct Hp as (Ht & Hre & Hl). rewrite (cands_pat_ext i p1 p2 Ht Hl s _ _ 0 Hre), (IH ps2' (S i) s Hr). reflexivity.
Qed.
Theorem best_cand_ext ps1 ps2 s : Forall2 pateq ps1 ps2 -> best_cand tbl1 ps1 s = best_cand tbl2 ps2 s.
Proof. intros H. unfold best_cand, cands. rewrite (cands_from_ext ps1 ps2 0 s H). reflexivity. Qed.

Definition modeeq (m1 m2:smode) : Prop := Forall2 pateq (sm_pats m1) (sm_pats m2) /\ sm_trans m1 = sm_trans m2.

Theorem spec_scanner_ext ms1 ms2 : Forall2 modeeq ms1 ms2 ->
  forall ops st, run_ops (spec_scanner tbl1 ms1) st ops = run_ops (spec_scanner tbl2 ms2) st ops.
Proof.
  intros H. apply run_ops_ext.
  - intros m s. cbn [sc_find spec_scanner]. revert m. induction H as [|m1 m2 l1 l2 Hm _ IH]; intros [|m]; cbn [nth_error]; try reflexivity.
    + destruct Hm as (Hp & _). rewrite (best_cand_ext _ _ s Hp). reflexivity.
    + apply IH.
  - intros m. cbn [sc_trans spec_scanner]. revert m. induction H as [|m1 m2 l1 l2 Hm _ IH]; intros [|m]; cbn [nth_error]; try reflexivity.
    + destruct Hm as (_ & ->). reflexivity.
    + apply IH.
Qed.
End E.
