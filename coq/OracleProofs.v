(* OracleProofs.v — the property oracle used to judge token streams (Spec.check_stream) accepts a
   token at a position exactly when it is a MAXIMAL candidate in the sense of the property text:
   some pattern matches that prefix in full with its lookahead condition satisfied, and no candidate
   has a larger extent or the same extent and an earlier pattern. (The deterministic specification
   best_cand additionally fixes WHICH maximal candidate is delivered; a stream is only reported as a
   violation when it is not accepted by this oracle.) *)
From Scnr Require Import Base Regex Automaton FindFrom Spec SpecProofs.

Section O.
Variable leaf : N -> N -> bool.

Lemma cbetter_spec x1 i1 t1 e1 x2 i2 t2 e2 :
  cbetter (x1, i1, t1, e1) (x2, i2, t2, e2) = true <-> x2 < x1 \/ (x1 = x2 /\ i1 < i2).
Proof.
  unfold cbetter. rewrite orb_true_iff, andb_true_iff, !Nat.ltb_lt, Nat.eqb_eq. tauto.
Qed.

Theorem is_max_cand_spec ps s t e :
  is_max_cand leaf ps s t e = true <->
  exists x i, SCand leaf ps s x i t e /\
    forall x' i' t' e', SCand leaf ps s x' i' t' e' -> ~ (x < x' \/ (x' = x /\ i' < i)).
Proof.
  unfold is_max_cand. rewrite existsb_exists. split.
  - intros ([[[x i] t'] e'] & Hin & H). apply andb_true_iff in H as (H & Hn). apply andb_true_iff in H as (Ht & He).
    apply N.eqb_eq in Ht. apply Nat.eqb_eq in He. subst t' e'. exists x, i. split; [apply cands_spec; exact Hin|].
    intros x' i' t' e' Hc Hb. apply negb_true_iff in Hn.
    assert (Hex : existsb (fun c' => cbetter c' (x, i, t, e)) (cands leaf ps s) = true).
    { apply existsb_exists. exists (x', i', t', e'). split; [apply cands_spec; exact Hc|]. apply cbetter_spec. tauto. }
    rewrite Hex in Hn. discriminate.
  - intros (x & i & Hc & Hmax). exists (x, i, t, e). split; [apply cands_spec; exact Hc|].
    rewrite N.eqb_refl, Nat.eqb_refl. cbn [andb]. apply negb_true_iff.
    destruct (existsb (fun c' => cbetter c' (x, i, t, e)) (cands leaf ps s)) eqn:E; [|reflexivity]. exfalso.
    apply existsb_exists in E as ([[[x' i'] t'] e'] & Hin & Hb). apply cbetter_spec in Hb.
    apply (Hmax x' i' t' e'); [apply cands_spec; exact Hin|tauto].
Qed.

(* the token the deterministic specification delivers is accepted by the oracle *)
Theorem best_cand_is_max ps s t e : best_cand leaf ps s = Some (t, e) -> is_max_cand leaf ps s t e = true.
Proof.
  intros H. pose proof (best_cand_spec leaf ps s) as Hs. rewrite H in Hs. destruct Hs as (x & i & Hc & Hmax).
  apply is_max_cand_spec. exists x, i. split; [exact Hc|]. intros x' i' t' e' Hc' Hb. specialize (Hmax _ _ _ _ Hc'). lia.
Qed.
(* and the oracle accepts nothing where the specification finds nothing *)
Theorem no_best_no_max ps s : best_cand leaf ps s = None -> forall t e, is_max_cand leaf ps s t e = false.
Proof.
  intros H t e. pose proof (best_cand_spec leaf ps s) as Hs. rewrite H in Hs.
  destruct (is_max_cand leaf ps s t e) eqn:E; [|reflexivity]. exfalso.
  apply is_max_cand_spec in E as (x & i & Hc & _). exact (Hs _ _ _ _ Hc).
Qed.
End O.
