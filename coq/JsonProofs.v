(* JsonProofs.v — proofs about Json.v: the generic reader inverts the generic printer, the schema
   decoders invert the encoders, hence the round trips of C16. *)
From Scnr Require Import Base.
From Coq Require Import Decimal DecimalN DecimalPos DecimalFacts.
From Coq Require Import List.   (* again, so that app/length/rev are List's, not Decimal's *)
From Scnr Require Import Json.
Local Open Scope N_scope.

(* ------------------------------------------------------------------------------------------ *)
(* Unfolding equations (keep the mutual fixpoint folded in goals)                              *)
(* ------------------------------------------------------------------------------------------ *)

Lemma parse_value_S f' t : parse_value (S f') t =
    match skip_ws t with
    | [] => None
    | c :: t1 =>
      if c =? 34 then
        match parse_str t1 with Some (s, r) => Some (JStr s, r) | None => None end
      else if c =? 91 then
        match skip_ws t1 with
        | [] => None
        | c2 :: t2 =>
          if c2 =? 93 then Some (JArr [], t2)
          else match parse_elems f' t1 with Some (l, r) => Some (JArr l, r) | None => None end
        end
      else if c =? 123 then
        match skip_ws t1 with
        | [] => None
        | c2 :: t2 =>
          if c2 =? 125 then Some (JObj [], t2)
          else match parse_members f' t1 with Some (m, r) => Some (JObj m, r) | None => None end
        end
      else if is_digit c then parse_number (c :: t1)
      else if c =? 116 then parse_lit lit_true (JBool true) (c :: t1)
      else if c =? 102 then parse_lit lit_false (JBool false) (c :: t1)
      else if c =? 110 then parse_lit lit_null JNull (c :: t1)
      else None
    end.
Proof. reflexivity. Qed.

Lemma parse_elems_S f' t : parse_elems (S f') t =
    match parse_value f' t with
    | None => None
    | Some (v, t1) =>
      match skip_ws t1 with
      | [] => None
      | c :: t2 =>
        if c =? 44 then
          match parse_elems f' t2 with Some (l, r) => Some (v :: l, r) | None => None end
        else if c =? 93 then Some ([v], t2)
        else None
      end
    end.
Proof. reflexivity. Qed.

Lemma parse_members_S f' t : parse_members (S f') t =
    match skip_ws t with
    | [] => None
    | q :: t0 =>
      if q =? 34 then
        match parse_str t0 with
        | None => None
        | Some (k, t1) =>
          match skip_ws t1 with
          | [] => None
          | c :: t2 =>
            if c =? 58 then
              match parse_value f' t2 with
              | None => None
              | Some (v, t3) =>
                match skip_ws t3 with
                | [] => None
                | c2 :: t4 =>
                  if c2 =? 44 then
                    match parse_members f' t4 with
                    | Some (m, r) => Some ((k, v) :: m, r)
                    | None => None
                    end
                  else if c2 =? 125 then Some ([(k, v)], t4)
                  else None
                end
              end
            else None
          end
        end
      else None
    end.
Proof. reflexivity. Qed.

Lemma join_close_one c x : join_close c [x] = x ++ [c].
Proof. reflexivity. Qed.
Lemma join_close_cons c x y l : join_close c (x :: y :: l) = x ++ 44 :: join_close c (y :: l).
Proof. reflexivity. Qed.

Lemma skip_ws_nows c t : is_ws c = false -> skip_ws (c :: t) = c :: t.
Proof. intros H. cbn [skip_ws]. rewrite H. reflexivity. Qed.

(* ------------------------------------------------------------------------------------------ *)
(* Strings                                                                                     *)
(* ------------------------------------------------------------------------------------------ *)

Lemma parse_str_esc c t : parse_str (esc c ++ t) = cons_res c (parse_str t).
Proof.
  unfold esc.
  destruct (N.eqb_spec c 34) as [->|n1]; [reflexivity|].
  destruct (N.eqb_spec c 92) as [->|n2]; [reflexivity|].
  destruct (N.eqb_spec c 8) as [->|n3]; [reflexivity|].
  destruct (N.eqb_spec c 12) as [->|n4]; [reflexivity|].
  destruct (N.eqb_spec c 10) as [->|n5]; [reflexivity|].
  destruct (N.eqb_spec c 13) as [->|n6]; [reflexivity|].
  destruct (N.eqb_spec c 9) as [->|n7]; [reflexivity|].
  destruct (N.ltb_spec c 32) as [L|L].
  - destruct c as [|p]; [reflexivity|].
    do 5 (destruct p as [p|p|]; try (exfalso; lia); try reflexivity).
  - cbn [app parse_str].
    rewrite (proj2 (N.eqb_neq c 34) n1), (proj2 (N.eqb_neq c 92) n2).
    rewrite (proj2 (N.ltb_ge c 32) L). reflexivity.
Qed.

Lemma parse_str_body s rest : parse_str (print_body s ++ 34 :: rest) = Some (s, rest).
Proof.
  induction s as [|c s IH]; [reflexivity|].
  change (print_body (c :: s)) with (esc c ++ print_body s).
  rewrite <- app_assoc, parse_str_esc, IH. reflexivity.
Qed.

Lemma print_string_app s rest : print_string s ++ rest = 34 :: print_body s ++ 34 :: rest.
Proof. unfold print_string. cbn [app]. rewrite <- app_assoc. reflexivity. Qed.

(* ------------------------------------------------------------------------------------------ *)
(* Numbers                                                                                     *)
(* ------------------------------------------------------------------------------------------ *)

(* the text that follows does not continue the number *)
Definition nodigit (r:list N) : Prop := match r with [] => True | c :: _ => digit_of c = None end.

Lemma take_digits_print d rest : nodigit rest -> take_digits (print_uint d ++ rest) = (d, rest).
Proof.
  intros H. induction d; cbn [print_uint app take_digits];
    try (change (digit_of _) with (Some D0) || change (digit_of _) with (Some D1)
         || change (digit_of _) with (Some D2) || change (digit_of _) with (Some D3)
         || change (digit_of _) with (Some D4) || change (digit_of _) with (Some D5)
         || change (digit_of _) with (Some D6) || change (digit_of _) with (Some D7)
         || change (digit_of _) with (Some D8) || change (digit_of _) with (Some D9));
    try (rewrite IHd; reflexivity).
  destruct rest as [|c r]; [reflexivity|]. cbn [take_digits]. cbn in H. rewrite H. reflexivity.
Qed.

Lemma to_uint_no_leading_zero p d : Pos.to_uint p <> D0 d.
Proof.
  intros E.
  assert (U : unorm (Pos.to_uint p) = Pos.to_uint p).
  { rewrite <- DecimalPos.Unsigned.to_of, DecimalPos.Unsigned.of_to. reflexivity. }
  rewrite E, unorm_D0 in U.
  destruct d as [| | | | | | | | | |].
  { apply (DecimalPos.Unsigned.to_uint_nonzero p). exact E. }
  all: match type of U with unorm ?x = _ =>
      assert (L : (nb_digits (unorm x) <= nb_digits x)%nat) by (apply nb_digits_unorm; discriminate);
      rewrite U in L; cbn [nb_digits] in L; lia end.
Qed.

Lemma num_of_uint_to_uint n : num_of_uint (N.to_uint n) = Some n.
Proof.
  destruct n as [|p]; [reflexivity|].
  cbn [N.to_uint].
  pose proof (DecimalPos.Unsigned.to_uint_nonnil p) as NN.
  pose proof (to_uint_no_leading_zero p) as NZ.
  pose proof (DecimalPos.Unsigned.of_to p) as OT.
  destruct (Pos.to_uint p) as [|d|d|d|d|d|d|d|d|d|d] eqn:E;
    [congruence | exfalso; eapply NZ; reflexivity | ..];
    unfold num_of_uint, N.of_uint; rewrite OT; reflexivity.
Qed.

Lemma parse_number_print n rest : nodigit rest ->
  parse_number (print_num n ++ rest) = Some (JNum n, rest).
Proof.
  intros H. unfold parse_number, print_num. rewrite take_digits_print by exact H.
  rewrite num_of_uint_to_uint. reflexivity.
Qed.

(* the first character of a printed number is a digit *)
Lemma print_num_head n : exists c t, print_num n = c :: t /\ is_digit c = true.
Proof.
  unfold print_num.
  assert (NN : N.to_uint n <> Nil).
  { destruct n; [discriminate | apply DecimalPos.Unsigned.to_uint_nonnil]. }
  destruct (N.to_uint n); [congruence | ..]; cbn [print_uint]; eexists _, _; split; reflexivity.
Qed.

Lemma digit_class c : is_digit c = true ->
  is_ws c = false /\ c =? 34 = false /\ c =? 91 = false /\ c =? 123 = false
  /\ c =? 93 = false /\ c =? 125 = false.
Proof.
  unfold is_digit, is_ws. rewrite andb_true_iff, N.leb_le, N.leb_le. intros [A B].
  repeat split; repeat (apply orb_false_iff; split); apply N.eqb_neq; lia.
Qed.

(* ------------------------------------------------------------------------------------------ *)
(* Induction principle for the nested type                                                     *)
(* ------------------------------------------------------------------------------------------ *)

Section JInd.
  Variable P : jvalue -> Prop.
  Hypothesis HNull : P JNull.
  Hypothesis HBool : forall b, P (JBool b).
  Hypothesis HNum : forall n, P (JNum n).
  Hypothesis HStr : forall s, P (JStr s).
  Hypothesis HArr : forall l, Forall P l -> P (JArr l).
  Hypothesis HObj : forall m, Forall (fun kv => P (snd kv)) m -> P (JObj m).
  Fixpoint jvalue_ind' (v:jvalue) : P v :=
    match v with
    | JNull => HNull
    | JBool b => HBool b
    | JNum n => HNum n
    | JStr s => HStr s
    | JArr l => HArr l ((fix go (l:list jvalue) : Forall P l :=
                           match l with
                           | [] => Forall_nil _
                           | x :: l' => Forall_cons x (jvalue_ind' x) (go l')
                           end) l)
    | JObj m => HObj m ((fix go (m:list (list N * jvalue)) : Forall (fun kv => P (snd kv)) m :=
                           match m with
                           | [] => Forall_nil _
                           | kv :: m' => Forall_cons kv (jvalue_ind' (snd kv)) (go m')
                           end) m)
    end.
End JInd.

(* ------------------------------------------------------------------------------------------ *)
(* The reader inverts the printer                                                              *)
(* ------------------------------------------------------------------------------------------ *)

(* statement proved by induction: any fuel above the length of the printed text suffices, and
   the text that follows is returned untouched (it must not continue a number) *)
Definition roundtrips (v:jvalue) : Prop :=
  forall f rest, nodigit rest -> (f > length (print_json v))%nat ->
  parse_value f (print_json v ++ rest) = Some (v, rest).

(* first character of a printed value: not whitespace and not a closing bracket *)
Definition good_head (c:N) : Prop := is_ws c = false /\ c =? 93 = false /\ c =? 125 = false.
Lemma print_json_head v : exists c t, print_json v = c :: t /\ good_head c.
Proof.
  destruct v as [|[|]|n|s|l|m]; try (eexists _, _; split; [reflexivity|]; repeat split; reflexivity).
  cbn [print_json]. destruct (print_num_head n) as (c & t & E & D). exists c, t. split; [exact E|].
  destruct (digit_class c D) as (A & _ & _ & _ & B & C). repeat split; assumption.
Qed.

Definition print_member (kv:list N * jvalue) : list N :=
  let '(k, x) := kv in print_string k ++ 58 :: print_json x.

Lemma elems_roundtrip l : Forall roundtrips l -> l <> [] ->
  forall f rest, (f > length (join_close 93 (map print_json l)))%nat ->
  parse_elems f (join_close 93 (map print_json l) ++ rest) = Some (l, rest).
Proof.
  induction 1 as [|x l Hx Hl IH]; [congruence|]. intros _ f rest Hf.
  destruct f as [|f']; [lia|]. rewrite parse_elems_S.
  destruct l as [|y l'].
  - cbn [map] in *. rewrite join_close_one in *. rewrite app_length in Hf. cbn [length] in Hf.
    rewrite <- app_assoc. cbn [app].
    rewrite Hx by (cbn; try reflexivity; lia).
    reflexivity.
  - cbn [map] in *. rewrite join_close_cons in *. rewrite app_length in Hf. cbn [length] in Hf.
    rewrite <- app_assoc. cbn [app].
    rewrite Hx by (cbn; try reflexivity; lia).
    rewrite skip_ws_nows by reflexivity. change (44 =? 44) with true. cbv iota.
    rewrite IH by (try discriminate; lia). reflexivity.
Qed.

Lemma members_roundtrip m : Forall (fun kv => roundtrips (snd kv)) m -> m <> [] ->
  forall f rest, (f > length (join_close 125 (map print_member m)))%nat ->
  parse_members f (join_close 125 (map print_member m) ++ rest) = Some (m, rest).
Proof.
  induction 1 as [|[k x] m Hx Hm IH]; [congruence|]. intros _ f rest Hf. cbn [snd] in Hx.
  destruct f as [|f']; [lia|]. rewrite parse_members_S.
  destruct m as [|y m'].
  - cbn [map] in *. rewrite join_close_one in *. unfold print_member in *.
    rewrite !app_length in Hf. cbn [length] in Hf.
    rewrite <- !app_assoc. rewrite print_string_app. cbn [app].
    rewrite skip_ws_nows by reflexivity. change (34 =? 34) with true. cbv iota.
    rewrite parse_str_body. rewrite skip_ws_nows by reflexivity.
    change (58 =? 58) with true. cbv iota.
    rewrite Hx by (cbn; try reflexivity; lia).
    reflexivity.
  - cbn [map] in *. rewrite join_close_cons in *.
    change (print_member (k, x)) with (print_string k ++ 58 :: print_json x) in *.
    rewrite !app_length in Hf. cbn [length] in Hf.
    rewrite <- !app_assoc. rewrite print_string_app. cbn [app].
    rewrite skip_ws_nows by reflexivity. change (34 =? 34) with true. cbv iota.
    rewrite parse_str_body. rewrite skip_ws_nows by reflexivity.
    change (58 =? 58) with true. cbv iota.
    rewrite Hx by (cbn; try reflexivity; lia).
    rewrite skip_ws_nows by reflexivity. change (44 =? 44) with true. cbv iota.
    rewrite IH by (try discriminate; lia). reflexivity.
Qed.

Theorem parse_value_print v : roundtrips v.
Proof.
  induction v as [| b | n | s | l IH | m IH] using jvalue_ind'; intros f rest Hr Hf;
    (destruct f as [|f']; [lia|]); rewrite parse_value_S.
  - reflexivity.
  - destruct b; reflexivity.
  - cbn [print_json] in *. destruct (print_num_head n) as (c & t & E & D).
    destruct (digit_class c D) as (A1 & A2 & A3 & A4 & _ & _).
    rewrite E. cbn [app]. rewrite skip_ws_nows by exact A1. rewrite A2, A3, A4, D.
    change (c :: t ++ rest) with ((c :: t) ++ rest). rewrite <- E.
    apply parse_number_print. exact Hr.
  - cbn [print_json]. rewrite print_string_app. rewrite skip_ws_nows by reflexivity.
    change (34 =? 34) with true. cbv iota. rewrite parse_str_body. reflexivity.
  - cbn [print_json] in *. cbn [app]. rewrite skip_ws_nows by reflexivity.
    change (91 =? 34) with false. change (91 =? 91) with true. cbv iota.
    destruct l as [|x l'].
    + reflexivity.
    + assert (Hh : exists c t, join_close 93 (map print_json (x :: l')) ++ rest = c :: t /\ good_head c).
      { destruct (print_json_head x) as (c & t & E & G). cbn [map].
        destruct l' as [|y l'']; [rewrite join_close_one | cbn [map]; rewrite join_close_cons];
          rewrite E; cbn [app]; eexists _, _; split; try reflexivity; exact G. }
      destruct Hh as (c & t & E & (G1 & G2 & _)).
      rewrite E at 1. rewrite skip_ws_nows by exact G1. rewrite G2.
      cbn [length] in Hf.
      rewrite elems_roundtrip; [reflexivity | exact IH | discriminate | lia].
  - cbn [print_json] in *. cbn [app]. rewrite skip_ws_nows by reflexivity.
    change (123 =? 34) with false. change (123 =? 91) with false. change (123 =? 123) with true.
    cbv iota.
    change (map (fun kv : list N * jvalue => let '(k, x) := kv in print_string k ++ 58 :: print_json x) m)
      with (map print_member m) in *.
    destruct m as [|[k x] m'].
    + reflexivity.
    + assert (E : exists t, join_close 125 (map print_member ((k, x) :: m')) ++ rest = 34 :: t).
      { cbn [map]. destruct m' as [|y m'']; [rewrite join_close_one | cbn [map]; rewrite join_close_cons];
          unfold print_member at 1; unfold print_string; cbn [app]; eexists; reflexivity. }
      destruct E as (t & E). rewrite E at 1. rewrite skip_ws_nows by reflexivity.
      change (34 =? 125) with false. cbv iota.
      cbn [length] in Hf.
      rewrite members_roundtrip; [reflexivity | exact IH | discriminate | lia].
Qed.

Theorem parse_json_print v : parse_json (print_json v) = Some v.
Proof.
  unfold parse_json, json_fuel.
  pose proof (parse_value_print v (S (2 * length (print_json v))) [] I) as H.
  rewrite app_nil_r in H. rewrite H by lia. reflexivity.
Qed.

(* trailing and leading whitespace around printer output is accepted as well *)
Lemma skip_ws_idem t : skip_ws (skip_ws t) = skip_ws t.
Proof.
  induction t as [|c t IH]; [reflexivity|]. cbn [skip_ws]. destruct (is_ws c) eqn:E; [exact IH|].
  cbn [skip_ws]. rewrite E. reflexivity.
Qed.

(* ------------------------------------------------------------------------------------------ *)
(* The decoders invert the encoders                                                            *)
(* ------------------------------------------------------------------------------------------ *)

Lemma traverse_map {A B} (enc:A -> B) (dec:B -> option A) (l:list A) :
  (forall x, dec (enc x) = Some x) -> traverse dec (map enc l) = Some l.
Proof. intros H. induction l as [|x l IH]; [reflexivity|]. cbn [map traverse]. rewrite H, IH. reflexivity. Qed.

Lemma lookahead_of_json_of l : lookahead_of_json (json_of_lookahead l) = Some l.
Proof. destruct l. reflexivity. Qed.

Lemma pattern_of_json_of p : pattern_of_json (json_of_pattern p) = Some p.
Proof. destruct p as [s t [[b ls]|]]; reflexivity. Qed.

Lemma transition_of_json_of tr : transition_of_json (json_of_transition tr) = Some tr.
Proof. destruct tr. reflexivity. Qed.

Lemma mode_of_json_obj nm ps tr :
  mode_of_json (JObj [(k_name, JStr nm); (k_patterns, JArr ps); (k_transitions, JArr tr)]) =
  bind (traverse pattern_of_json ps) (fun ps' =>
  bind (traverse transition_of_json tr) (fun tr' =>
  Some {| m_name := nm; m_patterns := ps'; m_transitions := tr' |})).
Proof. reflexivity. Qed.

Lemma mode_of_json_of m : mode_of_json (json_of_mode m) = Some m.
Proof.
  destruct m as [nm ps tr]. unfold json_of_mode. cbn [m_name m_patterns m_transitions].
  rewrite mode_of_json_obj.
  rewrite (traverse_map _ _ _ pattern_of_json_of). cbn [bind].
  rewrite (traverse_map _ _ _ transition_of_json_of). reflexivity.
Qed.

Lemma config_of_json_of c : config_of_json (json_of_config c) = Some c.
Proof. unfold config_of_json, json_of_config. cbn [as_arr bind]. apply traverse_map, mode_of_json_of. Qed.

Lemma span_of_json_of s : span_of_json (json_of_span s) = Some s.
Proof. destruct s. reflexivity. Qed.
Lemma position_of_json_of p : position_of_json (json_of_position p) = Some p.
Proof. destruct p. reflexivity. Qed.

Lemma match_of_json_obj t sv :
  match_of_json (JObj [(k_token_type, JNum t); (k_span, sv)]) =
  bind (span_of_json sv) (fun s => Some {| mt_token := t; mt_span := s |}).
Proof. reflexivity. Qed.
Lemma match_of_json_of m : match_of_json (json_of_match m) = Some m.
Proof.
  destruct m as [t s]. unfold json_of_match. cbn [mt_token mt_span].
  rewrite match_of_json_obj, span_of_json_of. reflexivity.
Qed.

Lemma match_ext_of_json_obj t sv p1 p2 :
  match_ext_of_json (JObj [(k_token_type, JNum t); (k_span, sv); (k_start_position, p1);
                           (k_end_position, p2)]) =
  bind (span_of_json sv) (fun s =>
  bind (position_of_json p1) (fun a =>
  bind (position_of_json p2) (fun b =>
  Some {| me_token := t; me_span := s; me_start := a; me_end := b |}))).
Proof. reflexivity. Qed.
Lemma match_ext_of_json_of m : match_ext_of_json (json_of_match_ext m) = Some m.
Proof.
  destruct m as [t s a b]. unfold json_of_match_ext. cbn [me_token me_span me_start me_end].
  rewrite match_ext_of_json_obj, span_of_json_of, !position_of_json_of. reflexivity.
Qed.

(* ------------------------------------------------------------------------------------------ *)
(* Round trips                                                                                 *)
(* ------------------------------------------------------------------------------------------ *)

(* no hypothesis is needed in the model: the reader takes every raw character >= U+0020 *)
Theorem config_roundtrip_any cfg : parse_config (print_config cfg) = Some cfg.
Proof. unfold parse_config, print_config. rewrite parse_json_print. apply config_of_json_of. Qed.

Theorem config_roundtrip cfg : wf_config cfg -> parse_config (print_config cfg) = Some cfg.
Proof. intros _. apply config_roundtrip_any. Qed.

Theorem span_roundtrip s : parse_span (print_span s) = Some s.
Proof. unfold parse_span, parse_with, print_span. rewrite parse_json_print. apply span_of_json_of. Qed.
Theorem position_roundtrip p : parse_position (print_position p) = Some p.
Proof. unfold parse_position, parse_with, print_position. rewrite parse_json_print. apply position_of_json_of. Qed.
Theorem match_roundtrip m : parse_match (print_match m) = Some m.
Proof. unfold parse_match, parse_with, print_match. rewrite parse_json_print. apply match_of_json_of. Qed.
Theorem match_ext_roundtrip m : parse_match_ext (print_match_ext m) = Some m.
Proof. unfold parse_match_ext, parse_with, print_match_ext. rewrite parse_json_print. apply match_ext_of_json_of. Qed.

Theorem print_config_injective a b : wf_config a -> wf_config b -> print_config a = print_config b -> a = b.
Proof.
  intros _ _ E. pose proof (config_roundtrip_any a) as Ha. rewrite E, config_roundtrip_any in Ha.
  congruence.
Qed.

Theorem config_roundtrip_strict cfg : in_range_config cfg = true ->
  parse_config_strict (print_config cfg) = Some cfg.
Proof. intros H. unfold parse_config_strict. rewrite config_roundtrip_any, H. reflexivity. Qed.

(* ------------------------------------------------------------------------------------------ *)
(* What wf_config buys: the printed text is a sequence of scalar values (a Rust `str`)         *)
(* ------------------------------------------------------------------------------------------ *)

Lemma scalar_text_app a b : scalar_text (a ++ b) = scalar_text a && scalar_text b.
Proof. apply forallb_app. Qed.

Lemma esc_scalar c : is_scalar c = true -> scalar_text (esc c) = true.
Proof.
  intros H. unfold esc.
  repeat match goal with |- context [if ?b then _ else _] =>
    match b with N.eqb _ _ => destruct b; [reflexivity|] end end.
  destruct (N.ltb_spec c 32) as [L|L].
  - destruct c as [|p]; [reflexivity|].
    do 5 (destruct p as [p|p|]; try (exfalso; lia); try reflexivity).
  - cbn. rewrite H. reflexivity.
Qed.

Lemma print_body_scalar s : scalar_text s = true -> scalar_text (print_body s) = true.
Proof.
  induction s as [|c s IH]; [reflexivity|]. cbn [scalar_text forallb]. rewrite andb_true_iff.
  intros [A B]. change (print_body (c :: s)) with (esc c ++ print_body s).
  rewrite scalar_text_app, esc_scalar by exact A. apply IH, B.
Qed.

Lemma print_string_scalar s : scalar_text s = true -> scalar_text (print_string s) = true.
Proof.
  intros H. unfold print_string. change (34 :: print_body s ++ [34]) with ([34] ++ print_body s ++ [34]).
  rewrite !scalar_text_app, print_body_scalar by exact H. reflexivity.
Qed.

Lemma print_uint_scalar d : scalar_text (print_uint d) = true.
Proof. induction d; [reflexivity|..]; cbn [print_uint]; exact IHd. Qed.

Lemma join_close_scalar c l : is_scalar c = true -> Forall (fun x => scalar_text x = true) l ->
  scalar_text (join_close c l) = true.
Proof.
  intros Hc. induction 1 as [|x l Hx Hl IH]; [cbn; rewrite Hc; reflexivity|].
  destruct l as [|y l'].
  - rewrite join_close_one, scalar_text_app, Hx. cbn. rewrite Hc. reflexivity.
  - rewrite join_close_cons, scalar_text_app, Hx. cbn [andb].
    change (44 :: join_close c (y :: l')) with ([44] ++ join_close c (y :: l')).
    rewrite scalar_text_app, IH. reflexivity.
Qed.

Theorem print_json_scalar v : jscalar v = true -> scalar_text (print_json v) = true.
Proof.
  induction v as [| b | n | s | l IH | m IH] using jvalue_ind'; intros H.
  - reflexivity.
  - destruct b; reflexivity.
  - apply print_uint_scalar.
  - apply print_string_scalar, H.
  - cbn [print_json]. change (91 :: ?x) with ([91] ++ x). rewrite scalar_text_app. cbn [jscalar] in H.
    rewrite join_close_scalar; [reflexivity | reflexivity |].
    rewrite forallb_forall in H. rewrite Forall_forall in IH. apply Forall_forall.
    intros x Hx. apply in_map_iff in Hx as (v & <- & Hv). apply IH; [exact Hv | apply H, Hv].
  - cbn [print_json]. change (123 :: ?x) with ([123] ++ x). rewrite scalar_text_app. cbn [jscalar] in H.
    rewrite join_close_scalar; [reflexivity | reflexivity |].
    rewrite forallb_forall in H. rewrite Forall_forall in IH. apply Forall_forall.
    intros x Hx. apply in_map_iff in Hx as ([k v] & <- & Hv).
    specialize (H _ Hv). specialize (IH _ Hv). cbn [snd] in IH. apply andb_true_iff in H as [H1 H2].
    change (58 :: print_json v) with ([58] ++ print_json v).
    rewrite !scalar_text_app, print_string_scalar, IH by assumption. reflexivity.
Qed.

Lemma forallb_map {A B} (f:B -> bool) (g:A -> B) l : forallb f (map g l) = forallb (fun x => f (g x)) l.
Proof. induction l as [|x l IH]; [reflexivity|]. cbn [map forallb]. rewrite IH. reflexivity. Qed.

Lemma jscalar_transitions tr : forallb jscalar (map json_of_transition tr) = true.
Proof. rewrite forallb_map. apply forallb_forall. intros [a b] _. reflexivity. Qed.

Lemma jscalar_pattern p : wf_pattern p = true -> jscalar (json_of_pattern p) = true.
Proof.
  destruct p as [s t [[b ls]|]]; unfold wf_pattern, wf_lookahead, json_of_pattern, json_of_lookahead;
    cbn [p_pattern p_token p_lookahead la_pattern la_positive jscalar forallb];
    rewrite ?andb_true_iff; intros H; repeat split; try reflexivity; try tauto.
Qed.

Lemma jscalar_config c : wf_config c -> jscalar (json_of_config c) = true.
Proof.
  unfold wf_config, wf_configb, json_of_config. cbn [jscalar]. rewrite forallb_map.
  rewrite !forallb_forall. intros H m Hm. specialize (H m Hm). destruct m as [nm ps tr].
  unfold wf_mode in H. cbn [m_name m_patterns] in H. apply andb_true_iff in H as [H1 H2].
  unfold json_of_mode. cbn [m_name m_patterns m_transitions jscalar forallb].
  rewrite H1, jscalar_transitions, forallb_map.
  replace (forallb (fun x => jscalar (json_of_pattern x)) ps) with true; [reflexivity|].
  symmetry. apply forallb_forall. intros p Hp. apply jscalar_pattern.
  rewrite forallb_forall in H2. apply H2, Hp.
Qed.

Theorem print_config_scalar c : wf_config c -> scalar_text (print_config c) = true.
Proof. intros H. apply print_json_scalar, jscalar_config, H. Qed.
