(* SpecProofs.v — the executable specification (Spec.v: candidates, best_cand) means what it
   says: its candidates are exactly the (pattern, length) pairs whose pattern matches and whose
   lookahead condition holds; best_cand is a maximal candidate (extent, then pattern order);
   and for modes without lookahead it coincides with find_from on any automaton that accepts
   the pattern languages. *)
From Scnr Require Import Base Regex Automaton FindFrom FindFromProofs ModeProofs Iter IterProofs IterInst Spec SpecRun RuleProofs.

Section SP.
Variable leaf : N -> N -> bool.

(* ---------- longest match of a regular expression ---------- *)
Lemma longest_from_spec r : forall s acc best,
  longest_from leaf r s acc best =
  match longest_from leaf r s acc None with Some l => Some l | None => best end.
Proof.
  intros s. revert r. induction s as [|c s IH]; intros r acc best; cbn [longest_from]; [reflexivity|].
  rewrite IH. rewrite (IH _ _ (if nullable (deriv leaf c r) then Some (acc + len_utf8 c) else None)).
  destruct (longest_from leaf (deriv leaf c r) s (acc + len_utf8 c) None); [reflexivity|].
  destruct (nullable (deriv leaf c r)); reflexivity.
Qed.

Lemma longest_from_sound r : forall s acc l, longest_from leaf r s acc None = Some l ->
  exists j, 0 < j <= length s /\ mt leaf r (firstn j s) /\ l = acc + bpos s j /\
    forall j', 0 < j' <= length s -> mt leaf r (firstn j' s) -> acc + bpos s j' <= l.
Proof.
  intros s. revert r. induction s as [|c s IH]; intros r acc l H; cbn [longest_from] in H; [discriminate|].
  rewrite longest_from_spec in H.
  destruct (longest_from leaf (deriv leaf c r) s (acc + len_utf8 c) None) as [l'|] eqn:E.
  - inversion H; subst l'. destruct (IH _ _ _ E) as (j & Hj & Hm & Hl & Hmax).
    exists (S j). split; [cbn; lia|]. split; [cbn [firstn]; apply (deriv_spec leaf); exact Hm|].
    split; [unfold bpos in *; cbn [firstn blen]; lia|].
    intros j' Hj' Hm'. destruct j' as [|j']; [lia|]. unfold bpos. cbn [firstn blen].
    destruct j' as [|j'].
    + cbn [firstn blen]. unfold bpos in Hl. pose proof (len_utf8_pos c). lia.
    + cbn [firstn] in Hm'. apply (deriv_spec leaf) in Hm'.
      specialize (Hmax (S j')). unfold bpos in Hmax. cbn in Hj'. specialize (Hmax ltac:(lia) Hm'). lia.
  - destruct (nullable (deriv leaf c r)) eqn:En; [|discriminate]. inversion H; subst l.
    exists 1. split; [cbn; lia|]. split.
    + cbn [firstn]. apply (deriv_spec leaf). apply (nullable_spec leaf). exact En.
    + split; [unfold bpos; cbn; lia|].
      intros j' Hj' Hm'. destruct j' as [|[|j']]; [lia|unfold bpos; cbn; lia|].
      exfalso. cbn [firstn] in Hm'. apply (deriv_spec leaf) in Hm'.
      (* a longer match would have been found *)
      assert (Hc : forall r0 s0 acc0, longest_from leaf r0 s0 acc0 None = None ->
                   forall j0, 0 < j0 <= length s0 -> ~ mt leaf r0 (firstn j0 s0)).
      { clear. intros r0 s0. revert r0. induction s0 as [|c0 s0 IH0]; intros r0 acc0 Hn j0 Hj0 Hm0; [cbn in Hj0; lia|].
        cbn [longest_from] in Hn. rewrite longest_from_spec in Hn.
        destruct (longest_from leaf (deriv leaf c0 r0) s0 (acc0 + len_utf8 c0) None) eqn:E0; [discriminate|].
        destruct (nullable (deriv leaf c0 r0)) eqn:En0; [discriminate|].
        destruct j0 as [|[|j0]]; [lia| |].
        - cbn [firstn] in Hm0. apply (deriv_spec leaf) in Hm0. apply (nullable_spec leaf) in Hm0. congruence.
        - cbn [firstn] in Hm0. apply (deriv_spec leaf) in Hm0. apply (IH0 _ _ E0 (S j0)); [cbn in Hj0; lia|exact Hm0]. }
      apply (Hc _ _ _ E (S j')); [cbn in Hj'; lia|exact Hm'].
Qed.

Lemma longest_from_none r : forall s acc, longest_from leaf r s acc None = None ->
  forall j, 0 < j <= length s -> ~ mt leaf r (firstn j s).
Proof.
  intros s. revert r. induction s as [|c s IH]; intros r acc Hn j Hj Hm; [cbn in Hj; lia|].
  cbn [longest_from] in Hn. rewrite longest_from_spec in Hn.
  destruct (longest_from leaf (deriv leaf c r) s (acc + len_utf8 c) None) eqn:E; [discriminate|].
  destruct (nullable (deriv leaf c r)) eqn:En; [discriminate|].
  destruct j as [|[|j]]; [lia| |].
  - cbn [firstn] in Hm. apply (deriv_spec leaf) in Hm. apply (nullable_spec leaf) in Hm. congruence.
  - cbn [firstn] in Hm. apply (deriv_spec leaf) in Hm. apply (IH _ _ E (S j)); [cbn in Hj; lia|exact Hm].
Qed.

(* the lookahead condition of the specification is the one stated on the patterns *)
Definition la_prop (la:option (bool * re)) (rest:list N) : Prop :=
  match la with
  | None => True
  | Some (true, r) => exists j, 0 < j <= length rest /\ mt leaf r (firstn j rest)
  | Some (false, r) => forall j, 0 < j <= length rest -> ~ mt leaf r (firstn j rest)
  end.

Lemma la_spec_prop la rest : (exists l, la_spec leaf la rest = Some l) <-> la_prop la rest.
Proof.
  unfold la_spec, la_prop, longest. destruct la as [[[|] r]|].
  - split.
    + intros (l & H). destruct (longest_from_sound _ _ _ _ H) as (j & Hj & Hm & _). eauto.
    + intros (j & Hj & Hm). destruct (longest_from leaf r rest 0 None) eqn:E; [eauto|].
      exfalso. exact (longest_from_none _ _ _ E j Hj Hm).
  - split.
    + intros (l & H). destruct (longest_from leaf r rest 0 None) eqn:E; [discriminate|].
      intros j Hj Hm. exact (longest_from_none _ _ _ E j Hj Hm).
    + intros Hn. destruct (longest_from leaf r rest 0 None) eqn:E; [|eauto].
      destruct (longest_from_sound _ _ _ _ E) as (j & Hj & Hm & _). exfalso. exact (Hn j Hj Hm).
  - split; eauto.
Qed.

(* ---------- the candidates ---------- *)
Lemma cands_pat_spec i p : forall s r e0 x i' t e',
  In (x, i', t, e') (cands_pat leaf i p r s e0) <->
  i' = i /\ t = sp_tok p /\ exists k l, 0 < k <= length s /\ mt leaf r (firstn k s) /\
    e' = e0 + bpos s k /\ la_spec leaf (sp_la p) (skipn k s) = Some l /\ x = e' + l.
Proof.
  induction s as [|c s IH]; intros r e0 x i' t e'; cbn [cands_pat].
  - split; [intros []|]. intros (_ & _ & k & l & Hk & _). cbn in Hk. lia.
  - set (r' := deriv leaf c r). set (e1 := e0 + len_utf8 c).
    assert (Hrest : In (x, i', t, e') (cands_pat leaf i p r' s e1) <->
              i' = i /\ t = sp_tok p /\ exists k l, 1 < k <= S (length s) /\ mt leaf r (firstn k (c :: s)) /\
                e' = e0 + bpos (c :: s) k /\ la_spec leaf (sp_la p) (skipn k (c :: s)) = Some l /\ x = e' + l).
    { rewrite IH. split.
      - intros (A & B & k & l & Hk & Hm & He & Hl & Hx). split; [exact A|]. split; [exact B|].
        exists (S k), l. split; [lia|]. split; [cbn [firstn]; apply (deriv_spec leaf); exact Hm|].
        split; [unfold bpos, e1 in *; cbn [firstn blen]; lia|]. split; [exact Hl|exact Hx].
      - intros (A & B & k & l & Hk & Hm & He & Hl & Hx). split; [exact A|]. split; [exact B|].
        destruct k as [|k]; [lia|]. exists k, l. split; [lia|]. cbn [firstn] in Hm. apply (deriv_spec leaf) in Hm.
        split; [exact Hm|]. split; [unfold bpos, e1 in *; cbn [firstn blen] in He; lia|]. split; [exact Hl|exact Hx]. }
    assert (Hhead : forall l, la_spec leaf (sp_la p) s = Some l -> nullable r' = true ->
              ((e1 + l, i, sp_tok p, e1) = (x, i', t, e') <->
               i' = i /\ t = sp_tok p /\ mt leaf r (firstn 1 (c :: s)) /\ e' = e0 + bpos (c :: s) 1 /\ x = e' + l)).
    { intros l Hl Hn. unfold bpos, e1. cbn [firstn blen]. rewrite Nat.add_0_r. split.
      - intros E. inversion E; subst. repeat split; auto. apply (deriv_spec leaf). apply (nullable_spec leaf). exact Hn.
      - intros (A & B & _ & C & D). subst. reflexivity. }
    destruct (nullable r') eqn:En.
    + destruct (la_spec leaf (sp_la p) s) as [l0|] eqn:El0.
      * cbn [In]. rewrite Hrest, (Hhead l0 eq_refl eq_refl). split.
        -- intros [(A & B & Hm & He & Hx)|(A & B & k & l & Hk & R)].
           ++ split; [exact A|]. split; [exact B|]. exists 1, l0. split; [cbn; lia|]. split; [exact Hm|].
              split; [exact He|]. split; [cbn [skipn]; exact El0|exact Hx].
           ++ split; [exact A|]. split; [exact B|]. exists k, l. split; [cbn; lia|exact R].
        -- intros (A & B & k & l & Hk & Hm & He & Hl & Hx). destruct (Nat.eq_dec k 1) as [->|Hne].
           ++ left. cbn [skipn] in Hl. rewrite El0 in Hl. inversion Hl; subst l. auto.
           ++ right. split; [exact A|]. split; [exact B|]. exists k, l. split; [cbn in Hk; lia|auto].
      * rewrite Hrest. split.
        -- intros (A & B & k & l & Hk & R). split; [exact A|]. split; [exact B|]. exists k, l. split; [cbn; lia|exact R].
        -- intros (A & B & k & l & Hk & Hm & He & Hl & Hx). destruct (Nat.eq_dec k 1) as [->|Hne].
           ++ cbn [skipn] in Hl. congruence.
           ++ split; [exact A|]. split; [exact B|]. exists k, l. split; [cbn in Hk; lia|auto].
    + rewrite Hrest. split.
      * intros (A & B & k & l & Hk & R). split; [exact A|]. split; [exact B|]. exists k, l. split; [cbn; lia|exact R].
      * intros (A & B & k & l & Hk & Hm & He & Hl & Hx). destruct (Nat.eq_dec k 1) as [->|Hne].
        -- exfalso. cbn [firstn] in Hm. apply (deriv_spec leaf) in Hm. apply (nullable_spec leaf) in Hm. fold r' in Hm. congruence.
        -- split; [exact A|]. split; [exact B|]. exists k, l. split; [cbn in Hk; lia|auto].
Qed.

Lemma cands_from_spec : forall ps i0 s x i t e,
  In (x, i, t, e) (cands_from leaf i0 ps s) <->
  exists p, nth_error ps (i - i0) = Some p /\ i0 <= i /\ t = sp_tok p /\
    exists k l, 0 < k <= length s /\ mt leaf (sp_re p) (firstn k s) /\ e = bpos s k /\
      la_spec leaf (sp_la p) (skipn k s) = Some l /\ x = e + l.
Proof.
  induction ps as [|p ps IH]; intros i0 s x i t e; cbn [cands_from].
  - split; [intros []|]. intros (p & H & _). destruct (i - i0); discriminate.
  - rewrite in_app_iff, cands_pat_spec, IH. split.
    + intros [(A & B & k & l & R)|(q & Hq & Hi & R)].
      * subst i. exists p. rewrite Nat.sub_diag. split; [reflexivity|]. split; [lia|]. split; [exact B|]. exists k, l. cbn in R. exact R.
      * exists q. split; [|split; [lia|exact R]]. replace (i - i0) with (S (i - S i0)) by lia. exact Hq.
    + intros (q & Hq & Hi & Ht & R). destruct (Nat.eq_dec i i0) as [->|Hne].
      * left. rewrite Nat.sub_diag in Hq. inversion Hq; subst q. split; [reflexivity|]. split; [exact Ht|]. cbn. exact R.
      * right. exists q. replace (i - i0) with (S (i - S i0)) in Hq by lia. split; [exact Hq|]. split; [lia|]. split; [exact Ht|exact R].
Qed.

(* a candidate of the specification: pattern index i, k characters, extent x *)
Definition SCand (ps:list spat) (s:list N) (x i:nat) (t:N) (e:nat) : Prop :=
  exists p, nth_error ps i = Some p /\ t = sp_tok p /\
    exists k l, 0 < k <= length s /\ mt leaf (sp_re p) (firstn k s) /\ e = bpos s k /\
      la_spec leaf (sp_la p) (skipn k s) = Some l /\ x = e + l.

Theorem cands_spec ps s x i t e : In (x, i, t, e) (cands leaf ps s) <-> SCand ps s x i t e.
Proof.
  unfold cands, SCand. rewrite cands_from_spec. rewrite Nat.sub_0_r. split.
  - intros (p & A & _ & R). eauto.
  - intros (p & A & R). exists p. split; [exact A|]. split; [lia|exact R].
Qed.

(* ---------- best_cand is a maximal candidate ---------- *)
Definition cle (c1 c2:nat * nat * N * nat) : Prop := cbetter c2 c1 = true \/ c1 = c2 \/
  (let '(x1,i1,_,_) := c1 in let '(x2,i2,_,_) := c2 in x1 = x2 /\ i1 = i2).

Lemma fold_best l : forall b,
  let r := fold_left (fun b c => match b with None => Some c | Some b0 => if cbetter c b0 then Some c else b end) l b in
  (forall c, In c l -> exists m, r = Some m /\ cbetter c m = false) /\
  (forall b0, b = Some b0 -> exists m, r = Some m /\ cbetter b0 m = false) /\
  (r = b \/ exists m, In m l /\ r = Some m).
Proof.
  assert (Tr : forall a b c, cbetter a b = false -> cbetter b c = false -> cbetter a c = false).
  { intros [[[x1 i1] t1] e1] [[[x2 i2] t2] e2] [[[x3 i3] t3] e3]. unfold cbetter.
    rewrite !orb_false_iff, !andb_false_iff, !Nat.ltb_ge, !Nat.eqb_neq. lia. }
  assert (Rf : forall a, cbetter a a = false).
  { intros [[[x1 i1] t1] e1]. unfold cbetter. rewrite orb_false_iff, andb_false_iff, !Nat.ltb_ge. lia. }
  assert (Flip : forall a b, cbetter a b = true -> cbetter b a = false).
  { intros [[[x1 i1] t1] e1] [[[x2 i2] t2] e2]. unfold cbetter.
    rewrite orb_true_iff, andb_true_iff, orb_false_iff, andb_false_iff, !Nat.ltb_lt, !Nat.ltb_ge, Nat.eqb_eq, Nat.eqb_neq. lia. }
  induction l as [|c l IH]; intros b; cbn [fold_left].
  - cbn zeta. split; [intros c []|]. split; [intros b0 ->; exists b0; auto|]. left; reflexivity.
  - set (b1 := match b with None => Some c | Some b0 => if cbetter c b0 then Some c else b end).
    destruct (IH b1) as (I1 & I2 & I3). cbn zeta in *.
    assert (Hc : exists m1, b1 = Some m1 /\ cbetter c m1 = false /\ (forall b0, b = Some b0 -> cbetter b0 m1 = false)
                 /\ (m1 = c \/ b = Some m1)).
    { unfold b1. destruct b as [b0|].
      - destruct (cbetter c b0) eqn:E.
        + exists c. split; [reflexivity|]. split; [apply Rf|]. split; [intros b' Eb; inversion Eb; subst; apply Flip; exact E|auto].
        + exists b0. split; [reflexivity|]. split; [exact E|]. split; [intros b' Eb; inversion Eb; subst; apply Rf|auto].
      - exists c. split; [reflexivity|]. split; [apply Rf|]. split; [discriminate|auto]. }
    destruct Hc as (m1 & E1 & Hcm & Hbm & Hor). destruct (I2 _ E1) as (m & Em & Hm1).
    split; [|split].
    + intros c' [<-|Hin]; [exists m; split; [exact Em|eapply Tr; eauto]|apply I1; exact Hin].
    + intros b0 Eb. exists m. split; [exact Em|]. eapply Tr; [apply Hbm; exact Eb|exact Hm1].
    + destruct I3 as [E|(m' & Hin & E)].
      * rewrite E, E1. destruct Hor as [->|Eb]; [right; exists c; cbn; auto|left; congruence].
      * right. exists m'. cbn. auto.
Qed.

Theorem best_cand_spec ps s :
  match best_cand leaf ps s with
  | None => forall x i t e, ~ SCand ps s x i t e
  | Some (t, e) => exists x i, SCand ps s x i t e /\
      forall x' i' t' e', SCand ps s x' i' t' e' -> x' < x \/ (x' = x /\ i <= i')
  end.
Proof.
  unfold best_cand. destruct (fold_best (cands leaf ps s) None) as (F1 & _ & F3). cbn zeta in *.
  destruct (fold_left _ (cands leaf ps s) None) as [[[[x i] t] e]|] eqn:E.
  - destruct F3 as [Eq|(m & Hin & Em)]; [discriminate|]. inversion Em; subst m.
    exists x, i. split; [apply cands_spec; exact Hin|].
    intros x' i' t' e' Hc. apply cands_spec in Hc. destruct (F1 _ Hc) as (m & Em2 & Hb). inversion Em2; subst m.
    unfold cbetter in Hb. rewrite orb_false_iff, andb_false_iff, !Nat.ltb_ge, Nat.eqb_neq in Hb. lia.
  - intros x i t e Hc. apply cands_spec in Hc. destruct (F1 _ Hc) as (m & Em & _). discriminate.
Qed.

(* the specification is a scanner the iterator proofs apply to *)
Theorem spec_scanner_ok (ms:list smode) :
  (forall sm t m', In sm ms -> has_transition (sm_trans sm) t = Some m' -> m' < length ms) ->
  sc_ok (spec_scanner leaf ms) (length ms).
Proof.
  intros Htr. unfold sc_ok, spec_scanner. cbn. split; [|split].
  - intros m s Hm. destruct (nth_error ms m) eqn:E; [discriminate|apply nth_error_None in E; lia].
  - intros m s t e H. destruct (nth_error ms m) as [sm|] eqn:E; [|discriminate]. inversion H as [Hb].
    pose proof (best_cand_spec (sm_pats sm) s) as Hs. rewrite Hb in Hs.
    destruct Hs as (x & i & (p & _ & _ & k & l & Hk & _ & He & _) & _). subst e. split.
    + unfold bpos. destruct s as [|c s]; [cbn in Hk; lia|]. destruct k; [lia|]. cbn [firstn blen]. pose proof (len_utf8_pos c). lia.
    + exists (skipn k s). unfold bpos. apply drop_bytes_firstn. lia.
  - intros m Hm. destruct (nth_error ms m) as [sm|] eqn:E; [|apply nth_error_None in E; lia].
    exists (sm_trans sm). split; [reflexivity|]. intros t m' Hh. eapply Htr; [eapply nth_error_In; exact E|exact Hh].
Qed.
End SP.

(* ---------- without lookaheads the compiled automaton and the specification agree ---------- *)
Section Agree.
Variable tbl : N -> N -> bool.
Variable leaf : N -> N -> bool.

Definition rs_of (ps:list spat) : list (N * re) := map (fun p => (sp_tok p, sp_re p)) ps.

Lemma nindex_nth : forall (l:list N) i t, NoDup l -> nth_error l i = Some t -> nindex t l = Some i.
Proof.
  induction l as [|y l IH]; intros i t Hnd Hn; [destruct i; discriminate|].
  inversion Hnd as [|? ? Hni Hnd']; subst. destruct i as [|i]; cbn in Hn.
  - inversion Hn; subst. cbn. rewrite N.eqb_refl. reflexivity.
  - cbn [nindex]. destruct (N.eqb t y) eqn:E.
    + apply N.eqb_eq in E. subst. exfalso. apply Hni. eapply nth_error_In; eauto.
    + rewrite (IH i t Hnd' Hn). reflexivity.
Qed.

Theorem find_mode_eq_best_cand (M:mode_aut) (ps:list spat) :
  mode_ok M -> las M = [] -> (forall p, In p ps -> sp_la p = None) ->
  tids (main M) = map sp_tok ps -> NoDup (map sp_tok ps) ->
  lang_equiv tbl leaf (main M) (rs_of ps) ->
  forall s, find_mode tbl M s = Ok (best_cand leaf ps s).
Proof.
  intros Mok Hla Hnola Htids Hnd Heq s.
  pose proof (find_longest_first tbl leaf M (rs_of ps) Mok Heq Hla s) as Hf.
  pose proof (best_cand_spec leaf ps s) as Hb.
  (* candidates of the specification are pattern matches and vice versa *)
  assert (S2P : forall x i t e, SCand leaf ps s x i t e ->
            exists k p, nth_error ps i = Some p /\ t = sp_tok p /\ e = bpos s k /\ x = e /\ pmatch leaf (rs_of ps) s k t).
  { intros x i t e (p & Hn & Ht & k & l & Hk & Hm & He & Hl & Hx).
    rewrite (Hnola p (nth_error_In _ _ Hn)) in Hl. cbn in Hl. inversion Hl; subst l.
    exists k, p. repeat split; auto; try lia. exists (sp_re p). split; [|exact Hm].
    unfold rs_of. apply in_map_iff. exists p. split; [subst; reflexivity|eapply nth_error_In; eauto]. }
  assert (P2S : forall k t, pmatch leaf (rs_of ps) s k t ->
            exists i p, nth_error ps i = Some p /\ sp_tok p = t /\ SCand leaf ps s (bpos s k) i t (bpos s k)).
  { intros k t (Hk & r & Hin & Hm). unfold rs_of in Hin. apply in_map_iff in Hin as (p & E & Hp). inversion E; subst.
    apply In_nth_error in Hp as (i & Hn). exists i, p. split; [exact Hn|]. split; [reflexivity|].
    exists p. split; [exact Hn|]. split; [reflexivity|]. exists k, 0. repeat split; auto; try lia.
    rewrite (Hnola p (nth_error_In _ _ Hn)). reflexivity. }
  assert (Idx : forall i p, nth_error ps i = Some p -> mprio M (sp_tok p) = i).
  { intros i p Hn. unfold mprio, priod, prio. rewrite Htids.
    rewrite (nindex_nth (map sp_tok ps) i (sp_tok p) Hnd); [reflexivity|]. rewrite nth_error_map, Hn. reflexivity. }
  destruct (find_mode tbl M s) as [[[t e]|]|]; [| |destruct Hf].
  - destruct Hf as (k & He & Hp & Hlong & Hfirst).
    destruct (best_cand leaf ps s) as [[t2 e2]|].
    + destruct Hb as (x2 & i2 & Hc2 & Hmax2).
      destruct (S2P _ _ _ _ Hc2) as (k2 & p2 & Hn2 & Ht2 & He2 & Hx2 & Hp2).
      destruct (P2S _ _ Hp) as (i & p & Hn & Ht & Hc).
      assert (Hk2 : k2 <= k) by (eapply Hlong; eauto).
      specialize (Hmax2 _ _ _ _ Hc).
      destruct Hp as ((Hk1 & Hk3) & _). destruct Hp2 as ((Hk21 & Hk23) & Hp2r).
      assert (Hkk : k = k2).
      { subst x2 e2. assert (bpos s k <= bpos s k2) by lia. apply (bpos_le_iff s k2 k) in H; lia. }
      subst k2. assert (Hee : e = e2) by congruence.
      (* the token types *)
      assert (Hi : i2 <= i) by (subst x2 e2; lia).
      assert (Hfi : mprio M t <= mprio M t2).
      { apply Hfirst. split; [lia|exact Hp2r]. }
      rewrite <- Ht, (Idx _ _ Hn), Ht2, (Idx _ _ Hn2) in Hfi.
      assert (i = i2) by lia. subst i2. rewrite Hn in Hn2. inversion Hn2; subst p2. subst. reflexivity.
    + exfalso. destruct (P2S _ _ Hp) as (i & p & _ & _ & Hc). exact (Hb _ _ _ _ Hc).
  - destruct (best_cand leaf ps s) as [[t2 e2]|]; [|reflexivity].
    exfalso. destruct Hb as (x2 & i2 & Hc2 & _). destruct (S2P _ _ _ _ Hc2) as (k2 & p2 & _ & _ & _ & _ & Hp2).
    exact (Hf _ _ Hp2).
Qed.
End Agree.
