(* OracleStream.v — the stream judge accepts the stream of the deterministic specification: for valid
   modes, check_stream (spec_tokens ..) = true. With the capstone (compiled model = specification) this
   says that the judge raises no alarm on the streams of the compiled model, for every input. *)
From Scnr Require Import Base Regex Automaton FindFrom FindFromProofs RuleProofs Iter IterProofs IterInst Spec SpecProofs OracleProofs.

Section S.
Variable leaf : N -> N -> bool.
Variable modes : list smode.
Hypothesis Htrans : forall m t m', In m modes -> nassoc t (sm_trans m) = Some m' -> m' < length modes.

Lemma switch_in_range m cur t : In m modes -> cur < length modes -> switch m cur t < length modes.
Proof. intros Hm Hc. unfold switch. destruct (nassoc t (sm_trans m)) as [m'|] eqn:E; [eapply Htrans; eauto|exact Hc]. Qed.

(* every token of the specification's stream starts at or after the scan position *)
Lemma spec_tokens_start : forall fuel cur s pos t st en rest,
  spec_tokens leaf fuel modes cur s pos = (t, st, en) :: rest -> pos <= st.
Proof.
  induction fuel as [|f IH]; intros cur s pos t st en rest H; cbn [spec_tokens] in H; [discriminate|].
  destruct s as [|c s']; [discriminate|]. destruct (nth_error modes cur) as [m|]; [|discriminate].
  destruct (best_cand leaf (sm_pats m) (c :: s')) as [[t0 e0]|].
  - destruct (drop_bytes e0 (c :: s')) as [r|]; [|discriminate]. inversion H; subst. lia.
  - apply IH in H. pose proof (len_utf8_pos c). lia.
Qed.

Lemma best_cand_drop ps s t e : best_cand leaf ps s = Some (t, e) ->
  0 < e /\ exists rest, drop_bytes e s = Some rest /\ length rest < length s.
Proof.
  intros H. pose proof (best_cand_spec leaf ps s) as Hs. rewrite H in Hs.
  destruct Hs as (x & i & (p & _ & _ & k & l & Hk & _ & He & _) & _). subst e. split.
  - pose proof (bpos_mono s 0 k (proj1 Hk) (proj2 Hk)) as Hm. assert (H0 : bpos s 0 = 0) by reflexivity. lia.
  - exists (skipn k s). split; [apply drop_bytes_firstn; lia|]. rewrite skipn_length. lia.
Qed.

Theorem check_accepts_spec : forall fuel cur s pos, length s < fuel -> cur < length modes ->
  check_stream leaf fuel modes cur s pos (spec_tokens leaf fuel modes cur s pos) = true.
Proof.
  induction fuel as [|f IH]; intros cur s pos Hf Hc; [lia|]. cbn [spec_tokens check_stream].
  destruct s as [|c s']; [reflexivity|].
  destruct (nth_error modes cur) as [m|] eqn:Em; [|apply nth_error_None in Em; lia].
  pose proof (nth_error_In _ _ Em) as Hin.
  destruct (best_cand leaf (sm_pats m) (c :: s')) as [[t e]|] eqn:Eb.
  - destruct (best_cand_drop _ _ _ _ Eb) as (He & rest & Hd & Hl). rewrite Hd.
    rewrite Nat.eqb_refl. replace (pos + e - pos) with e by lia. rewrite Hd.
    rewrite (best_cand_is_max leaf _ _ _ _ Eb). replace (pos <? pos + e) with true by (symmetry; apply Nat.ltb_lt; lia).
    cbn [andb]. apply IH; [cbn [length] in *; lia|apply switch_in_range; assumption].
  - destruct (spec_tokens leaf f modes cur s' (pos + len_utf8 c)) as [|[[t st] en] toks'] eqn:Et.
    + rewrite <- Et. apply IH; [cbn in Hf; lia|exact Hc].
    + pose proof (spec_tokens_start _ _ _ _ _ _ _ _ Et) as Hst. pose proof (len_utf8_pos c) as Hp.
      replace (st =? pos) with false by (symmetry; apply Nat.eqb_neq; lia).
      replace (pos <? st) with true by (symmetry; apply Nat.ltb_lt; lia). cbn [andb].
      rewrite <- Et. apply IH; [cbn in Hf; lia|exact Hc].
Qed.
End S.
