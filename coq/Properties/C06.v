(* C06 — scanner modes switch exactly on configured token types. Property theorems only. *)
From Scnr Require Import Base Automaton FindFrom Iter IterRun IterProofs IterInst HistoryProofs ModesProofs.

(* has_transition (sorted early-exit search) is the lookup of the configured transitions *)
Theorem C06_has_transition_is_lookup :
  forall tr t, nsorted (map fst tr) = true -> has_transition tr t = nassoc t tr.
Proof. exact has_transition_is_lookup. Qed.
Print Assumptions C06_has_transition_is_lookup.

(* One call of next, for every scanner satisfying sc_ok (in particular every valid set of
   compiled modes, C06_compiled_modes_ok) and every reachable iterator state: the token is the
   match of the CURRENT mode's patterns at the position where it starts; afterwards the mode is
   the target of the token type's transition in that mode if there is one, and unchanged
   otherwise; when no token is returned (only skipped characters) the mode is unchanged. *)
Theorem C06_mode_after_next :
  forall sc nmodes, sc_ok sc nmodes -> forall st, RInv nmodes st ->
  exists st' tok, next_match sc st = Ok (st', tok) /\ RInv nmodes st' /\
    match tok with
    | Some (t, a, b) =>
        (exists sa, drop_bytes a (it_input st) = Some sa /\ sc_find sc (it_mode st) sa = Ok (Some (t, b - a))) /\
        (exists tr, sc_trans sc (it_mode st) = Ok tr /\
                    it_mode st' = match has_transition tr t with Some m' => m' | None => it_mode st end)
    | None => it_mode st' = it_mode st
    end.
Proof.
  intros sc nmodes Hsc st HI. pose proof (next_match_spec sc nmodes Hsc st HI) as Hn.
  destruct (anext sc _ _ _ _) as [[[[m' p'] s'] tok]|] eqn:Ea; [|destruct Hn].
  destruct Hn as (st' & En & HI' & Hm & Hp & Hr & Hin). exists st', tok. split; [exact En|]. split; [exact HI'|].
  destruct HI as (Hs & _). destruct tok as [[[t a] b]|].
  - destruct (anext_token sc nmodes Hsc _ _ _ _ _ _ _ _ _ _ _ Hs Ea) as (_ & _ & _ & _ & A5 & (tr & Etr & Em)).
    split; [exact A5|]. exists tr. split; [exact Etr|congruence].
  - destruct (anext_none sc _ _ _ _ _ _ _ _ Hs Ea) as (Em & _). congruence.
Qed.
Print Assumptions C06_mode_after_next.

(* peek_n does not change the mode (it returns no new state at all) *)
Theorem C06_peek_keeps_state : forall sc st n st' out, step_op sc st (OPeek n) = Some (st', out) -> st' = st.
Proof.
  intros sc st n st' out H. cbn in H. destruct (peek_n sc st n) as [[ms|ms|ms m|]|]; inversion H; reflexivity.
Qed.
Print Assumptions C06_peek_keeps_state.

(* set_mode takes effect for the next token, current_mode reports the state *)
Theorem C06_set_mode : forall sc st m st' out,
  step_op sc st (OSetMode m) = Some (st', out) -> it_mode st' = m /\ step_op sc st' OCurrentMode = Some (st', [N.of_nat m]).
Proof. intros sc st m st' out H. cbn in H. inversion H; subst. split; reflexivity. Qed.
Print Assumptions C06_set_mode.

(* every new iterator starts in mode 0, whatever mode was set on the Scanner *)
Theorem C06_fresh_iterator_mode0 : forall scanner_mode input, it_mode (find_iter scanner_mode input) = 0.
Proof. reflexivity. Qed.
Print Assumptions C06_fresh_iterator_mode0.

(* valid compiled modes satisfy sc_ok, so the theorems above apply to them *)
Theorem C06_compiled_modes_ok : forall tbl modes, modes_okb modes = true -> sc_ok (impl_scanner tbl modes) (length modes).
Proof. intros tbl modes H. apply impl_scanner_ok, modes_okb_ok, H. Qed.
Print Assumptions C06_compiled_modes_ok.

(* the transition table of a built mode is the configured one *)
From Scnr Require Import Nfa Compile EndToEnd EndToEnd2.
Theorem C06_built_transitions_are_configured :
  forall m cm, build_mode m = Some cm -> mtrans cm = s_trans m.
Proof. exact build_mode_trans. Qed.
Print Assumptions C06_built_transitions_are_configured.
