(* C02b — the construction of the compiled automaton is correct for every mode, by proof:
   per-pattern Thompson NFAs (Nfa.v) -> multi-pattern NFA (shifted ids, start 0) -> BFS over the
   epsilon closures of single NFA states (Compile.v: multi_pattern_nfa.rs, compiled_dfa.rs
   From<MultiPatternNfa>/From<Nfa>) -> Minimizer::minimize (Minimizer.v).
   Property theorems only; the proofs are in CompileProofs.v.
   One class/leaf namespace: in the model the class id of a leaf is the leaf id (the registry's
   deduplication by ComparableAst equality is done where the ASTs enter the model). *)
From Scnr Require Import Base Regex Automaton FindFrom Spec Nfa NfaProofs Minimizer MinimizerProofs RuleProofs Compile CompileProofs.

(* try_from_patterns: the NFAs built by try_from_ast, shifted to consecutive id ranges 1.., form a
   well-formed multi-pattern NFA *)
Theorem C02_mp_build_wf :
  forall l : list (N * nfa), (forall tn, In tn l -> WF (snd tn)) -> mp_wf (mp_build l).
Proof. exact mp_build_wf. Qed.
Print Assumptions C02_mp_build_wf.

(* shifting the state ids of an NFA does not change its language (read by state id) *)
Theorem C02_shift_preserves_language :
  forall (tbl:N -> N -> bool) (n:nfa) (k:nat), WF n ->
  forall w, ilang tbl (nfa_shift_ids n k) w <-> nfa_lang tbl n w.
Proof. exact ilang_shift. Qed.
Print Assumptions C02_shift_preserves_language.

(* From<MultiPatternNfa>: neither a panic (find_nfa(..).expect, find(..).unwrap(), index out of
   range, "State not found") nor fuel exhaustion for a well-formed multi-pattern NFA *)
Theorem C02_compile_mp_total :
  forall mp, mp_wf mp -> exists A, compile_mp mp = Ok A.
Proof. exact compile_mp_total. Qed.
Print Assumptions C02_compile_mp_total.
Theorem C02_compile_mp_no_panic :
  forall mp, mp_wf mp -> compile_mp mp <> Panic.
Proof. exact compile_mp_no_panic. Qed.
Print Assumptions C02_compile_mp_no_panic.

(* the unminimized compiled automaton accepts, for every non-empty word, exactly the token types
   of the NFAs that accept the word *)
Theorem C02_compile_mp_correct :
  forall (tbl:N -> N -> bool) (mp:mp_nfa) (A:dfa), mp_wf mp -> compile_mp mp = Ok A ->
  forall w t, w <> [] -> (accepts_tok tbl A w t <-> exists n, In (t, n) mp /\ ilang tbl n w).
Proof. exact compile_mp_correct. Qed.
Print Assumptions C02_compile_mp_correct.
(* .. stated on the NFAs before shifting *)
Theorem C02_compile_mp_build_correct :
  forall (tbl:N -> N -> bool) (l:list (N * nfa)) (A:dfa),
  (forall tn, In tn l -> WF (snd tn)) -> compile_mp (mp_build l) = Ok A ->
  forall w t, w <> [] -> (accepts_tok tbl A w t <-> exists n, In (t, n) l /\ nfa_lang tbl n w).
Proof. exact compile_mp_build_correct. Qed.
Print Assumptions C02_compile_mp_build_correct.

(* the result can be minimized (wf_min), has at most (number of NFA states + 2) states, lists the
   token types in pattern order, and its state 0 is not accepting *)
Theorem C02_compile_mp_facts :
  forall mp A, mp_wf mp -> compile_mp mp = Ok A ->
  wf_min A = true /\ length (trans A) <= total_states mp + 2 /\ tids A = map fst mp /\
  forall tk, acc A 0 tk = false.
Proof. exact compile_mp_facts. Qed.
Print Assumptions C02_compile_mp_facts.

(* state 0 is the closure of the multi-pattern start, the only closure set that contains NFA
   state 0, hence never the closure of a transition target and never marked accepting: the empty
   word is not accepted, whatever the patterns are (also nullable ones) *)
Theorem C02_empty_word_never_accepted_by_construction :
  forall (tbl:N -> N -> bool) mp A, mp_wf mp -> compile_mp mp = Ok A -> forall t, ~ accepts_tok tbl A [] t.
Proof. exact compile_mp_empty_word. Qed.
Print Assumptions C02_empty_word_never_accepted_by_construction.

(* From<Nfa> (lookaheads) *)
Theorem C02_compile_single_total :
  forall n tid, WF n -> exists A, compile_single n tid = Ok A.
Proof. exact compile_single_total. Qed.
Print Assumptions C02_compile_single_total.
Theorem C02_compile_single_no_panic :
  forall n tid, WF n -> compile_single n tid <> Panic.
Proof. exact compile_single_no_panic. Qed.
Print Assumptions C02_compile_single_no_panic.
Theorem C02_compile_single_correct :
  forall (tbl:N -> N -> bool) n tid A, WF n -> compile_single n tid = Ok A ->
  forall w tk, w <> [] -> (accepts_tok tbl A w tk <-> tk = tid /\ nfa_lang tbl n w).
Proof. exact compile_single_correct. Qed.
Print Assumptions C02_compile_single_correct.
Theorem C02_compile_single_facts :
  forall n tid A, WF n -> compile_single n tid = Ok A ->
  wf_min A = true /\ length (trans A) <= length (nstates n) + 1 /\ tids A = [tid].
Proof. exact compile_single_wf_min. Qed.
Print Assumptions C02_compile_single_facts.

(* a whole mode before the minimizer: patterns -> automaton that accepts exactly the pattern
   languages (rs_of = core_of_ast on every pattern) *)
Theorem C02_compile_mode_unmin_correct :
  forall (tbl:N -> N -> bool) (pats:list (N * ast)) (A:dfa) (rs:list (N * re)),
  (forall t a, In (t, a) pats -> alts_nonempty a = true) ->
  compile_mode_unmin pats = Compiled A -> rs_of pats = Some rs -> lang_equiv tbl tbl A rs.
Proof. exact compile_mode_unmin_correct. Qed.
Print Assumptions C02_compile_mode_unmin_correct.

(* END TO END, with the minimizer. mode_width_ok is the boolean "the automaton entering the
   minimizer has at most 2^32 states" (C17), to be discharged by vm_compute *)
Theorem C02_compile_mode_correct :
  forall (tbl:N -> N -> bool) (pats:list (N * ast)) (A:dfa) (rs:list (N * re)),
  (forall t a, In (t, a) pats -> alts_nonempty a = true) -> mode_width_ok pats = true ->
  compile_mode pats = Compiled A -> rs_of pats = Some rs -> lang_equiv tbl tbl A rs.
Proof. exact compile_mode_correct. Qed.
Print Assumptions C02_compile_mode_correct.
(* a static sufficient condition for the width check: states <= NFA states + 2 *)
Theorem C02_compile_mode_size :
  forall pats l A0, nfas_of pats = NBuilt l -> compile_mode_unmin pats = Compiled A0 ->
  length (trans A0) <= total_states l + 2.
Proof. exact compile_mode_size. Qed.
Print Assumptions C02_compile_mode_size.
Theorem C02_compile_mode_empty_word :
  forall (tbl:N -> N -> bool) pats A, mode_width_ok pats = true -> compile_mode pats = Compiled A ->
  forall t, ~ accepts_tok tbl A [] t.
Proof. exact compile_mode_empty_word. Qed.
Print Assumptions C02_compile_mode_empty_word.

(* the pipeline never panics; it produces an automaton when every pattern is supported *)
Theorem C02_compile_mode_no_panic :
  forall pats, compile_mode pats <> ModePanic.
Proof. exact compile_mode_no_panic. Qed.
Print Assumptions C02_compile_mode_no_panic.
Theorem C02_compile_mode_supported :
  forall pats, (forall t a, In (t, a) pats -> supported a = true) -> exists A, compile_mode pats = Compiled A.
Proof. exact compile_mode_supported. Qed.
Print Assumptions C02_compile_mode_supported.

(* lookaheads end to end *)
Theorem C02_compile_la_correct :
  forall (tbl:N -> N -> bool) (a:ast) (A:dfa) (r:re),
  alts_nonempty a = true -> la_width_ok a = true -> compile_la a = Compiled A -> core_of_ast a = Some r ->
  forall w t, w <> [] -> (accepts_tok tbl A w t <-> t = 0%N /\ mt tbl r w).
Proof. exact compile_la_correct. Qed.
Print Assumptions C02_compile_la_correct.
Theorem C02_compile_la_no_panic :
  forall a, compile_la a <> ModePanic.
Proof. exact compile_la_no_panic. Qed.
Print Assumptions C02_compile_la_no_panic.

(* non-vacuity: the model reproduces the automata the implementation recorded for
   a(b|c)* / ab / "" and the hypotheses of the end-to-end theorem hold for it *)
Theorem C02_example_mode :
  compile_mode_unmin_enc ex_mode =
    [[0; 0; 0; 1; 0; 2]; [1; 3; 1; 3; 2; 4]; [0; 0; 1; 5]; [1; 3; 1; 3; 2; 4]; [1; 3; 1; 3; 2; 4]; [1; 1]]%N
  /\ compile_mode_enc ex_mode = [[0; 0; 0; 1; 0; 3]; [0; 0; 1; 2]; [1; 1]; [1; 3; 1; 3; 2; 3]]%N
  /\ compile_mode_tids ex_mode = [3; 1; 7]%N
  /\ mode_width_ok ex_mode = true
  /\ rs_of ex_mode = Some [(3, Cat (At 0) (Cat (Star (Alt (At 1) (At 2))) Eps)); (1, Cat (At 0) (Cat (At 1) Eps)); (7, Eps)]%N.
Proof. exact ex_mode_compiles. Qed.
Print Assumptions C02_example_mode.
