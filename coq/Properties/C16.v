(* C16 — serialization round trips of the modelled serde_json layout.
   Property theorems only; definitions are in Json.v, proofs in JsonProofs.v.

   Json.v models the text (as a list of Unicode scalar values) that serde_json::to_string emits
   for the derived Serialize impls of Vec<ScannerMode>, Span, Position, Match and MatchExt, and a
   reader (generic JSON parser + by-name schema decoders) for what from_str accepts. *)
From Scnr Require Import Base Json JsonProofs.
From Coq Require Import String.
Local Open Scope N_scope.

(* Reading the printed configuration gives the configuration back. wf_config: every string is a
   sequence of Unicode scalar values (the domain of Rust's String). *)
Theorem C16_config_roundtrip :
  forall cfg, wf_config cfg -> parse_config (print_config cfg) = Some cfg.
Proof. exact config_roundtrip. Qed.
Print Assumptions C16_config_roundtrip.

(* In the model the hypothesis is not even needed (numbers are unbounded, the reader takes every
   raw character from U+0020 on). *)
Theorem C16_config_roundtrip_any :
  forall cfg, parse_config (print_config cfg) = Some cfg.
Proof. exact config_roundtrip_any. Qed.
Print Assumptions C16_config_roundtrip_any.

(* What wf_config is for: the printed text is itself a sequence of scalar values. *)
Theorem C16_print_scalar :
  forall cfg, wf_config cfg -> scalar_text (print_config cfg) = true.
Proof. exact print_config_scalar. Qed.
Print Assumptions C16_print_scalar.

(* With the integer widths of the Rust types checked by the reader (usize < 2^64, u32 ids). *)
Theorem C16_config_roundtrip_strict :
  forall cfg, in_range_config cfg = true -> parse_config_strict (print_config cfg) = Some cfg.
Proof. exact config_roundtrip_strict. Qed.
Print Assumptions C16_config_roundtrip_strict.

Theorem C16_match_roundtrip : forall m, parse_match (print_match m) = Some m.
Proof. exact match_roundtrip. Qed.
Print Assumptions C16_match_roundtrip.

Theorem C16_match_ext_roundtrip : forall m, parse_match_ext (print_match_ext m) = Some m.
Proof. exact match_ext_roundtrip. Qed.
Print Assumptions C16_match_ext_roundtrip.

Theorem C16_span_roundtrip : forall s, parse_span (print_span s) = Some s.
Proof. exact span_roundtrip. Qed.
Print Assumptions C16_span_roundtrip.

Theorem C16_position_roundtrip : forall p, parse_position (print_position p) = Some p.
Proof. exact position_roundtrip. Qed.
Print Assumptions C16_position_roundtrip.

(* Different configurations have different texts. *)
Theorem C16_print_injective :
  forall a b, wf_config a -> wf_config b -> print_config a = print_config b -> a = b.
Proof. exact print_config_injective. Qed.
Print Assumptions C16_print_injective.

(* The generic layer: the JSON reader inverts the compact JSON printer on every value. *)
Theorem C16_json_roundtrip : forall v, parse_json (print_json v) = Some v.
Proof. exact parse_json_print. Qed.
Print Assumptions C16_json_roundtrip.

(* The README configuration (pretty-printed, two modes) is read as the expected value. *)
Example C16_readme : parse_config readme_json = Some readme_config.
Proof. vm_compute; reflexivity. Qed.

(* Non-vacuity: a configuration with quotes, backslashes, control characters, DEL, a 2-byte and a
   4-byte character, an absent and a present lookahead, the largest usize / u32 numbers and empty
   lists satisfies the hypotheses and round-trips by computation. *)
Example C16_nonvacuous :
  wf_config sample_config /\ in_range_config sample_config = true /\
  parse_config (print_config sample_config) = Some sample_config.
Proof. vm_compute. repeat split; reflexivity. Qed.

(* The layout itself on small values: compact, declaration order, lookahead omitted when None. *)
Example C16_layout_config :
  print_config [ mk_mode (codes "M") [ mk_pattern (codes "a""\") 7 None;
                                        mk_pattern [10; 1] 8 (Some (false, codes "b")) ] [(7, 0)] ]
  = codes "[{""name"":""M"",""patterns"":[{""pattern"":""a\""\\"",""token_type"":7},{""pattern"":""\n\u0001"",""token_type"":8,""lookahead"":{""is_positive"":false,""pattern"":""b""}}],""transitions"":[[7,0]]}]".
Proof. vm_compute; reflexivity. Qed.

Example C16_layout_match_ext :
  print_match_ext (mk_match_ext 3 10 12 2 1 2 3)
  = codes "{""token_type"":3,""span"":{""start"":10,""end"":12},""start_position"":{""line"":2,""column"":1},""end_position"":{""line"":2,""column"":3}}"
  /\ print_match (mk_match 3 10 12) = codes "{""token_type"":3,""span"":{""start"":10,""end"":12}}".
Proof. vm_compute. split; reflexivity. Qed.

(* What the reader accepts beyond printer output: whitespace, any field order, unknown fields,
   null lookahead, all string escapes including a surrogate pair; what it refuses: a missing
   required field, a duplicate field, leading zeros, a lone surrogate escape, trailing text. *)
Example C16_reader_accepts :
  parse_config (codes " [ { ""transitions"" : [ ] , ""extra"" : [null, true] ,
     ""patterns"":[{""lookahead"":null,""token_type"":1,""pattern"":""\u0041\/\uD83D\uDE00\t""}], ""name"":""N"" } ] ")
  = Some [ mk_mode (codes "N") [ mk_pattern [65; 47; 128512; 9] 1 None ] [] ].
Proof. vm_compute; reflexivity. Qed.

Example C16_reader_rejects :
  parse_config (codes "[{""name"":""N"",""patterns"":[]}]") = None /\
  parse_config (codes "[{""name"":""N"",""name"":""N"",""patterns"":[],""transitions"":[]}]") = None /\
  parse_span (codes "{""start"":01,""end"":2}") = None /\
  parse_json (codes """\uD83D""") = None /\
  parse_span (codes "{""start"":1,""end"":2} x") = None.
Proof. vm_compute. repeat split; reflexivity. Qed.
