(* C08 — Character classes are evaluated by the textbook set algebra.
   Property theorems only; definitions are in ClassAlg.v, proofs in ClassAlgProofs.v.

   eval_*   : transcription of the TryFrom impls of src/internal/match_function.rs, with the
              `negated` flag threaded exactly as there.
   denote_* : union = or, && = and, -- = and-not, ~~ = xor, [^..] = complement, ranges
              inclusive, literal = equality (a verbatim '.' is the dot set), named set = `named`.
   `named`  : the non-negated Perl / POSIX / Unicode sets, a parameter of every statement. *)
From Scnr Require Import Base ClassAlg ClassAlgProofs.
Local Open Scope N_scope.

(* the match function built for a class is the set the class denotes *)
Theorem C08_eval_is_set_algebra :
  forall named l ch, eval_leaf named l ch = denote_leaf named l ch.
Proof. exact eval_leaf_denote. Qed.
Print Assumptions C08_eval_is_set_algebra.

(* the same for class sets and class set items; the flag handed down is one complement *)
Theorem C08_eval_set_is_set_algebra :
  forall named s neg ch, eval_set named neg s ch = xorb neg (denote_set named s ch).
Proof. exact eval_set_denote. Qed.
Print Assumptions C08_eval_set_is_set_algebra.

Theorem C08_eval_item_is_set_algebra :
  forall named i neg ch, eval_item named neg i ch = xorb neg (denote_item named i ch).
Proof. exact eval_item_denote. Qed.
Print Assumptions C08_eval_item_is_set_algebra.

(* a literal matches exactly its character, unless it is a verbatim '.' *)
Theorem C08_literal :
  forall named c v ch, (c <> 46 \/ v = false) -> eval_leaf named (LLit c v) ch = N.eqb ch c.
Proof. exact eval_leaf_literal. Qed.
Print Assumptions C08_literal.

(* a verbatim '.' literal behaves like Dot *)
Theorem C08_literal_verbatim_dot :
  forall named ch, eval_leaf named (LLit 46 true) ch = negb (N.eqb ch 10 || N.eqb ch 13).
Proof. exact eval_leaf_verbatim_dot. Qed.
Print Assumptions C08_literal_verbatim_dot.

(* Dot matches everything except \n and \r *)
Theorem C08_dot :
  forall named ch, eval_leaf named LDot ch = negb (N.eqb ch 10 || N.eqb ch 13).
Proof. exact eval_leaf_dot. Qed.
Print Assumptions C08_dot.

(* the empty Ast matches every character *)
Theorem C08_empty : forall named ch, eval_leaf named LEmpty ch = true.
Proof. exact eval_leaf_empty. Qed.
Print Assumptions C08_empty.

(* ranges include both endpoints *)
Theorem C08_range_inclusive :
  forall named s e ch,
  eval_leaf named (LBracketed false (CItem (IRange s e))) ch = (N.leb s ch && N.leb ch e).
Proof. exact eval_leaf_range. Qed.
Print Assumptions C08_range_inclusive.

Theorem C08_range_inclusive_iff :
  forall named s e ch,
  eval_leaf named (LBracketed false (CItem (IRange s e))) ch = true <-> s <= ch <= e.
Proof. exact eval_leaf_range_iff. Qed.
Print Assumptions C08_range_inclusive_iff.

(* [^s] is the complement of [s], whatever s is (item, union or binary operation) *)
Theorem C08_bracketed_negation_is_complement :
  forall named s ch,
  eval_leaf named (LBracketed true s) ch = negb (eval_leaf named (LBracketed false s) ch).
Proof. exact eval_leaf_bracketed_neg. Qed.
Print Assumptions C08_bracketed_negation_is_complement.

Theorem C08_set_negation_is_complement :
  forall named s ch, eval_set named true s ch = negb (eval_set named false s ch).
Proof. exact eval_set_neg. Qed.
Print Assumptions C08_set_negation_is_complement.

Theorem C08_item_negation_is_complement :
  forall named i ch, eval_item named true i ch = negb (eval_item named false i ch).
Proof. exact eval_item_neg. Qed.
Print Assumptions C08_item_negation_is_complement.

(* [^[^s]] is [s]; a nested non-negated bracket is transparent *)
Theorem C08_negation_involutive :
  forall named s ch,
  eval_leaf named (LBracketed true (CItem (IBracketed true s))) ch =
  eval_leaf named (LBracketed false s) ch.
Proof. exact eval_leaf_double_neg. Qed.
Print Assumptions C08_negation_involutive.

Theorem C08_nested_bracket_transparent :
  forall named n s ch,
  eval_leaf named (LBracketed n (CItem (IBracketed false s))) ch =
  eval_leaf named (LBracketed n s) ch.
Proof. exact eval_leaf_nested_plain. Qed.
Print Assumptions C08_nested_bracket_transparent.

(* \D \S \W \P.. are the complements of \d \s \w \p.. *)
Theorem C08_perl_negation_is_complement :
  forall named k ch,
  eval_leaf named (LPerl k true) ch = negb (eval_leaf named (LPerl k false) ch).
Proof. exact eval_leaf_named_neg_perl. Qed.
Print Assumptions C08_perl_negation_is_complement.

Theorem C08_unicode_negation_is_complement :
  forall named id ch,
  eval_leaf named (LUnicode id true) ch = negb (eval_leaf named (LUnicode id false) ch).
Proof. exact eval_leaf_named_neg_unicode. Qed.
Print Assumptions C08_unicode_negation_is_complement.

(* a union matches iff one of its items does *)
Theorem C08_union_is_exists :
  forall named items ch,
  eval_leaf named (LBracketed false (CItem (IUnion items))) ch = true <->
  exists x, In x items /\ eval_item named false x ch = true.
Proof. exact eval_leaf_union. Qed.
Print Assumptions C08_union_is_exists.

(* && -- ~~ are intersection, difference, symmetric difference of the operand sets *)
Theorem C08_binop :
  forall named op l r ch,
  eval_leaf named (LBracketed false (COp op l r)) ch =
  match op with
  | OAnd => eval_set named false l ch && eval_set named false r ch
  | ODiff => eval_set named false l ch && negb (eval_set named false r ch)
  | OSym => xorb (eval_set named false l ch) (eval_set named false r ch)
  end.
Proof. exact eval_leaf_binop. Qed.
Print Assumptions C08_binop.

(* Two characters that agree on every named set, every literal, every range occurring in the
   class, and on being a line terminator when a dot occurs, are treated alike by the class. *)
Theorem C08_eval_congr :
  forall named ch1 ch2 l,
  Forall (fun n => named n ch1 = named n ch2) (named_of_leaf l) ->
  Forall (fun c => N.eqb ch1 c = N.eqb ch2 c) (lits_of_leaf l) ->
  Forall (fun p => (N.leb (fst p) ch1 && N.leb ch1 (snd p)) =
                   (N.leb (fst p) ch2 && N.leb ch2 (snd p))) (ranges_of_leaf l) ->
  (has_dot_leaf l = true ->
   negb (N.eqb ch1 10) && negb (N.eqb ch1 13) = negb (N.eqb ch2 10) && negb (N.eqb ch2 13)) ->
  eval_leaf named l ch1 = eval_leaf named l ch2.
Proof. exact eval_leaf_congr. Qed.
Print Assumptions C08_eval_congr.

(* the computable form of the hypothesis *)
Theorem C08_eval_congr_bool :
  forall named ch1 ch2 l,
  agreeb named l ch1 ch2 = true -> eval_leaf named l ch1 = eval_leaf named l ch2.
Proof. exact agreeb_eval. Qed.
Print Assumptions C08_eval_congr_bool.

(* only the named sets that occur in the class matter *)
Theorem C08_eval_named_ext :
  forall named1 named2 l ch,
  Forall (fun n => named1 n ch = named2 n ch) (named_of_leaf l) ->
  eval_leaf named1 l ch = eval_leaf named2 l ch.
Proof. exact eval_leaf_named_ext. Qed.
Print Assumptions C08_eval_named_ext.

(* the numbering used for table-backed named sets is injective *)
Theorem C08_named_key_injective : forall n1 n2, named_key n1 = named_key n2 -> n1 = n2.
Proof. exact named_key_inj. Qed.
Print Assumptions C08_named_key_injective.

Theorem C08_named_of_tbl :
  forall tbl n ch,
  named_of_tbl tbl n ch = true <-> exists l, nassoc (named_key n) tbl = Some l /\ In ch l.
Proof. exact named_of_tbl_spec. Qed.
Print Assumptions C08_named_of_tbl.

(* non-vacuity: [^a-c&&[^b]x] on a b c x \n *)
Theorem C08_example :
  eval_leaf_on cls_ex_named
    (LBracketed true
       (COp OAnd (CItem (IRange 97 99))
                 (CItem (IUnion [IBracketed true (CItem (ILit 98 true)); ILit 120 true]))))
    [97; 98; 99; 120; 10] = [false; true; false; true; true].
Proof. exact ex_nested. Qed.
Print Assumptions C08_example.
