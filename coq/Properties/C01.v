(* C01 — longest match wins, earlier pattern breaks ties, unmatched input is skipped. *)
From Scnr Require Import Base Regex Automaton FindFrom FindFromProofs ModeProofs Iter IterRun IterProofs IterInst
     HistoryProofs RuleProofs EquivCheck Spec SpecRun SpecProofs.

(* THE RULE AT ONE POSITION. For a mode automaton M without lookaheads whose automaton accepts
   exactly the pattern languages (lang_equiv: the conclusion of the C02 certificate of that very
   automaton), and every haystack s: find_from never panics; it returns None iff no pattern
   matches any non-empty prefix; otherwise the reported token (t, e) ends after k characters
   where some pattern of type t matches the first k characters in full, no pattern matches a
   longer prefix, and no pattern matching those k characters is listed before t
   (mprio = position in the priority order). *)
Theorem C01_longest_match_first_pattern :
  forall (tbl leaf:N -> N -> bool) (M:mode_aut) (rs:list (N * re)),
  mode_ok M -> lang_equiv tbl leaf (main M) rs -> las M = [] -> forall s,
  match find_mode tbl M s with
  | Panic => False
  | Ok None => forall k t, ~ pmatch leaf rs s k t
  | Ok (Some (t, e)) =>
      exists k, e = bpos s k /\ pmatch leaf rs s k t /\
        (forall k' t', pmatch leaf rs s k' t' -> k' <= k) /\
        (forall t', pmatch leaf rs s k t' -> mprio M t <= mprio M t')
  end.
Proof. exact find_longest_first. Qed.
Print Assumptions C01_longest_match_first_pattern.

(* with the token types of the mode listed in pattern order, the priority of a token type is
   the index of its pattern: "ties go to the pattern listed first" *)
Theorem C01_priority_is_pattern_index :
  forall (M:mode_aut) (rs:list (N * re)), tids (main M) = map fst rs -> forall t r, In (t, r) rs ->
  exists i, nindex t (map fst rs) = Some i /\ mprio M t = i /\ i < length rs.
Proof. intros M rs. exact (mprio_index (fun _ _ => false) (fun _ _ => false) M rs). Qed.
Print Assumptions C01_priority_is_pattern_index.

(* ITERATION. The tokens of k calls of next from any reachable state are the abstract scan of the
   suffix at the cursor: at each position the match of the current mode (the rule above) or,
   when there is none, one character is skipped (definition of anext); spans are absolute. *)
Theorem C01_stream_is_iterated_rule :
  forall sc nmodes, sc_ok sc nmodes -> forall k st, RInv nmodes st ->
  tokens sc k st = ascan sc k (it_mode st) (apos st) (it_rest st).
Proof. exact tokens_ascan. Qed.
Print Assumptions C01_stream_is_iterated_rule.

Theorem C01_skip_one_character :
  forall sc fuel m p c s, sc_find sc m (c :: s) = Ok None ->
  anext sc (S fuel) m p (c :: s) = anext sc fuel m (p + len_utf8 c) s.
Proof. intros sc fuel m p c s H. cbn [anext]. rewrite H. reflexivity. Qed.
Print Assumptions C01_skip_one_character.

(* the hypothesis lang_equiv over all strings follows from a successful run of the verified
   checker on the minterm alphabet (this is what every generated certificate instantiates) *)
Theorem C01_lang_equiv_from_certificate :
  forall (clsl clsc tbll tblc:N -> N -> bool) (f:N -> N) (A:dfa) (ms:list N) (rs:list (N * re)) (fuel:nat),
  (forall a c, clsl a c = tbll a (f c)) -> (forall a c, clsc a c = tblc a (f c)) -> (forall c, In (f c) ms) ->
  equiv_check tbll tblc A ms rs fuel = true -> lang_equiv clsc clsl A rs.
Proof.
  intros clsl clsc tbll tblc f A ms rs fuel Hl Hc Hms Hchk w t Hne.
  rewrite (accepts_tok_lift clsc tblc f Hc).
  rewrite (equiv_check_sound tbll tblc A ms rs fuel Hchk (map f w)).
  - split; intros (r & I & Mt); exists r; split; auto; apply (mt_lift clsl tbll f Hl); auto.
  - destruct w; [congruence|discriminate].
  - apply Forall_forall. intros m Hm. apply in_map_iff in Hm as (c & <- & _). apply Hms.
Qed.
Print Assumptions C01_lang_equiv_from_certificate.

(* THE EXECUTABLE SPECIFICATION used as oracle by the correspondence check (Spec.v: best_cand
   over the pattern ASTs, no automaton involved) is exactly find_from on any automaton that
   accepts the pattern languages, for a mode without lookaheads whose token types are distinct
   and listed in pattern order; and best_cand itself is a maximal candidate of the declarative
   candidate set (extent, then pattern order). *)
Theorem C01_find_equals_specification :
  forall (tbl leaf:N -> N -> bool) (M:mode_aut) (ps:list spat),
  mode_ok M -> las M = [] -> (forall p, In p ps -> sp_la p = None) ->
  tids (main M) = map sp_tok ps -> NoDup (map sp_tok ps) ->
  lang_equiv tbl leaf (main M) (rs_of ps) ->
  forall s, find_mode tbl M s = Ok (best_cand leaf ps s).
Proof. exact find_mode_eq_best_cand. Qed.
Print Assumptions C01_find_equals_specification.

Theorem C01_specification_is_maximal_candidate :
  forall leaf ps s,
  match best_cand leaf ps s with
  | None => forall x i t e, ~ SCand leaf ps s x i t e
  | Some (t, e) => exists x i, SCand leaf ps s x i t e /\
      forall x' i' t' e', SCand leaf ps s x' i' t' e' -> x' < x \/ (x' = x /\ i <= i')
  end.
Proof. exact best_cand_spec. Qed.
Print Assumptions C01_specification_is_maximal_candidate.

(* add_patterns: the token type is the index of the pattern *)
Theorem C01_simple_builder_types :
  forall (pats:list (list N)), map fst (combine (map N.of_nat (seq 0 (length pats))) pats) = map N.of_nat (seq 0 (length pats)).
Proof.
  intros pats. generalize 0. induction pats as [|p pats IH]; intros n; [reflexivity|].
  cbn [length seq map combine fst]. f_equal. apply IH.
Qed.
Print Assumptions C01_simple_builder_types.

(* Non-vacuity: the automaton scnr compiles for ab#0, a#1, [ab]+#2 (classes 0='a', 1='b',
   2='[ab]'): the certificate check succeeds, and "abba" gives type 2 ending at byte 4. *)
Definition ex1_tblc (a c:N) : bool := match a with 0 => N.eqb c 0 | 1 => N.eqb c 1 | _ => N.leb c 1 end%N.
Definition ex1_A : dfa :=
  {| trans := [[(0%N,1); (2%N,2)]; [(1%N,3); (2%N,2)]; [(2%N,2)]; [(2%N,2)]];
     fin := [(false,0%N); (true,1%N); (true,2%N); (true,0%N)]; tids := [0%N; 1%N; 2%N] |}.
Definition ex1_rs : list (N * re) := [(0, Cat (At 0) (At 1)); (1, At 0); (2, Cat (At 2) (Star (At 2)))]%N.
Example C01_nonvacuous :
  equiv_check ex1_tblc ex1_tblc ex1_A [0;1;2]%N ex1_rs 100 = true /\
  mode_okb {| main := ex1_A; las := [] |} = true /\
  find_mode ex1_tblc {| main := ex1_A; las := [] |} [0;1;1;0]%N = Ok (Some (2%N, 4)) /\
  find_mode ex1_tblc {| main := ex1_A; las := [] |} [0;1;2]%N = Ok (Some (0%N, 2)).
Proof. vm_compute. repeat split; reflexivity. Qed.

(* NO ALARM ON THE SPECIFICATION'S STREAM. The judge of plain token streams (check_stream: every token
   a maximal candidate at its start, no candidate at any skipped position) accepts the stream of the
   deterministic specification, for all valid mode graphs, all inputs and all start modes. Together
   with the capstone (compiled model = specification) the judge is therefore silent on every stream of
   the compiled model. *)
From Scnr Require Import OracleStream.
Theorem C01_judge_accepts_specification_stream :
  forall leaf modes,
  (forall m t m', In m modes -> nassoc t (sm_trans m) = Some m' -> m' < length modes) ->
  forall fuel cur s pos, length s < fuel -> cur < length modes ->
  check_stream leaf fuel modes cur s pos (spec_tokens leaf fuel modes cur s pos) = true.
Proof. exact check_accepts_spec. Qed.
Print Assumptions C01_judge_accepts_specification_stream.
