(* C13 — the scanner cache is transparent.
   Property theorems only; definitions are in Cache.v, proofs in CacheProofs.v.

   `compile : config -> option compiled` is the uncached build as a function of the whole
   configuration (None = the build returns an error); `build` is ScannerCache::get under the
   lock; `fold_builds c cfgs` runs a history of builds from cache c and returns the final cache
   and the result of every build.  Premises read from the source on every run (Gen/CacheFacts.v):
   the cache key is the complete Vec<ScannerMode> and PartialEq/Eq/Hash are derived (not
   hand-written) on ScannerMode, Pattern and Lookahead whose fields are exactly those of the
   records mode / pattern / lookahead of Json.v. *)
From Scnr Require Import Base Json Cache CacheProofs.
From Scnr Require Import Gen.CacheFacts.
Local Open Scope N_scope.

(* For every history of builds (equal, near-identical, unrelated, failing; any length) every build
   returns what the uncached build returns, and every entry left in the cache is the uncached
   result for its key. *)
Theorem C13_transparent :
  forall (compiled:Type) (compile:config -> option compiled) (cfgs:list config),
  let '(c, rs) := fold_builds compiled compile [] cfgs in
  rs = map compile cfgs /\ (forall k v, In (k, v) c -> compile k = Some v).
Proof. exact fold_builds_transparent. Qed.
Print Assumptions C13_transparent.

(* ... whatever was built before. *)
Theorem C13_after_any_history :
  forall (compiled:Type) (compile:config -> option compiled) (before cfgs:list config),
  snd (fold_builds compiled compile (fst (fold_builds compiled compile [] before)) cfgs)
  = map compile cfgs.
Proof. exact fold_builds_after_any_history. Qed.
Print Assumptions C13_after_any_history.

(* A build that fails returns the error and leaves the cache exactly as it was. *)
Theorem C13_failing_build_unchanged :
  forall (compiled:Type) (compile:config -> option compiled) (c:cache compiled) (cfg:config),
  cache_ok compiled compile c -> compile cfg = None -> build compiled compile c cfg = (c, None).
Proof. exact build_failing_unchanged. Qed.
Print Assumptions C13_failing_build_unchanged.

Example C13_failing_build_nonvacuous :
  cache_ok N ex_compile (fst (build N ex_compile [] ex_base)) /\ ex_compile ex_no_la = None
  /\ build N ex_compile (fst (build N ex_compile [] ex_base)) ex_no_la = ([(ex_base, 7)], None).
Proof. exact example_failing_premises. Qed.
Print Assumptions C13_failing_build_nonvacuous.

(* Failing builds leave no trace: the cache after a history is the cache after the history with
   the failing builds removed. *)
Theorem C13_failing_builds_leave_no_trace :
  forall (compiled:Type) (compile:config -> option compiled) (cfgs:list config) (c:cache compiled),
  cache_ok compiled compile c ->
  fst (fold_builds compiled compile c cfgs)
  = fst (fold_builds compiled compile c
           (filter (fun k => match compile k with Some _ => true | None => false end) cfgs)).
Proof. exact fold_builds_cache_skip_failing. Qed.
Print Assumptions C13_failing_builds_leave_no_trace.

(* The cache really is used: after a successful build an equal configuration is a hit (so the
   transparency theorem is about hits as well as misses). *)
Theorem C13_hit_after_build :
  forall (compiled:Type) (compile:config -> option compiled) (c:cache compiled) (cfg:config) (v:compiled),
  cache_ok compiled compile c -> compile cfg = Some v ->
  lookup compiled (fst (build compiled compile c cfg)) cfg = Some v.
Proof. exact build_then_hit. Qed.
Print Assumptions C13_hit_after_build.

Example C13_hit_nonvacuous :
  cache_ok N ex_compile [] /\ ex_compile ex_base = Some 7
  /\ is_hit N (fst (build N ex_compile [] ex_base)) ex_base = true
  /\ is_hit N (fst (build N ex_compile [] ex_base)) ex_polarity = false.
Proof. exact example_hit_premises. Qed.
Print Assumptions C13_hit_nonvacuous.

(* The key is the whole configuration. *)
Theorem C13_key_is_whole_config : forall a b:config, config_eqb a b = true <-> a = b.
Proof. exact config_eqb_iff. Qed.
Print Assumptions C13_key_is_whole_config.

(* Configurations that differ from ex_base (mode "M": a(?=b)#1, c#2, transition 1->0) in exactly
   one token type / the pattern order / lookahead presence / lookahead polarity / lookahead
   pattern / a transition / transition presence / the mode name / a pattern text are different
   keys (by computation), in both argument orders. *)
Example C13_near_identical_distinct :
  forallb (fun v => negb (config_eqb ex_base v) && negb (config_eqb v ex_base))
    [ex_token; ex_order; ex_no_la; ex_polarity; ex_la_pattern; ex_transition; ex_no_transition;
     ex_name; ex_pattern_text] = true
  /\ config_eqb ex_base ex_base = true.
Proof. exact near_identical_distinct. Qed.
Print Assumptions C13_near_identical_distinct.

(* Sensitivity: with a key that ignores lookaheads the cache is not transparent (compile =
   identity, history: base, then the configuration with the other lookahead polarity). *)
Example C13_key_must_be_whole :
  snd (fold_builds_with config (fun k => Some k) config_eqb_nola [] [ex_base; ex_polarity])
  <> map (fun k => Some k) [ex_base; ex_polarity].
Proof. exact coarse_key_not_transparent. Qed.
Print Assumptions C13_key_must_be_whole.

(* Premises read from the current source text (regenerated on every run). *)
Theorem C13_source_premises : key_facts = true.
Proof. exact key_facts_ok. Qed.
Print Assumptions C13_source_premises.
