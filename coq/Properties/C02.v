(* C02 — the compiled automaton accepts exactly the pattern languages, for every string.
   The generic part: soundness of the checker that is run by vm_compute inside the kernel on
   every program (run/<...>/inst_k.v), the lifting from the minterm alphabet to all Unicode
   scalar values, the empty word, registered classes. *)
From Scnr Require Import Base Regex Automaton EquivCheck.

(* If the product exploration succeeds, then for EVERY non-empty word over the minterm alphabet
   the automaton accepts a token type iff one of its patterns matches the whole word. *)
Theorem C02_checker_sound :
  forall (tbll tblc:N -> N -> bool) (A:dfa) (ms:list N) (rs:list (N * re)) (fuel:nat),
  equiv_check tbll tblc A ms rs fuel = true ->
  forall w, w <> [] -> Forall (fun c => In c ms) w ->
  forall t, accepts_tok tblc A w t <-> exists r, In (t,r) rs /\ mt tbll r w.
Proof. exact equiv_check_sound. Qed.
Print Assumptions C02_checker_sound.

(* A word of scalar values behaves like the word of its minterms, for the automaton ... *)
Theorem C02_minterm_lifting_automaton :
  forall (cls tbl:N -> N -> bool) (f:N -> N), (forall a c, cls a c = tbl a (f c)) ->
  forall A w t, accepts_tok cls A w t <-> accepts_tok tbl A (map f w) t.
Proof. exact accepts_tok_lift. Qed.
Print Assumptions C02_minterm_lifting_automaton.
(* ... and for the patterns. *)
Theorem C02_minterm_lifting_patterns :
  forall (cls tbl:N -> N -> bool) (f:N -> N), (forall a c, cls a c = tbl a (f c)) ->
  forall r w, mt cls r w <-> mt tbl r (map f w).
Proof. exact mt_lift. Qed.
Print Assumptions C02_minterm_lifting_patterns.

(* Together: the statement over all strings of Unicode scalar values. *)
Theorem C02_all_strings :
  forall (clsl clsc tbll tblc:N -> N -> bool) (f:N -> N) (A:dfa) (ms:list N) (rs:list (N * re)) (fuel:nat),
  (forall a c, clsl a c = tbll a (f c)) -> (forall a c, clsc a c = tblc a (f c)) -> (forall c, In (f c) ms) ->
  equiv_check tbll tblc A ms rs fuel = true ->
  forall w, w <> [] -> forall t, accepts_tok clsc A w t <-> exists r, In (t,r) rs /\ mt clsl r w.
Proof.
  intros clsl clsc tbll tblc f A ms rs fuel Hl Hc Hms Hchk w Hne t.
  rewrite (accepts_tok_lift clsc tblc f Hc).
  rewrite (equiv_check_sound tbll tblc A ms rs fuel Hchk (map f w)).
  - split; intros (r & I & M); exists r; split; auto; apply (mt_lift clsl tbll f Hl); auto.
  - destruct w; [congruence|discriminate].
  - apply Forall_forall. intros m Hm. apply in_map_iff in Hm as (c & <- & _). apply Hms.
Qed.
Print Assumptions C02_all_strings.

(* The empty word: accepted only if the start state is accepting, which is checked on every dump. *)
Theorem C02_empty_never_accepted :
  forall tbl A, start_not_accepting A = true -> forall t, ~ accepts_tok tbl A [] t.
Proof.
  intros tbl A H t (q & Hq & Ha). cbn in Hq. destruct Hq as [<-|[]].
  unfold start_not_accepting in H. unfold acc in Ha. destruct (fin A) as [|[[|] t'] l]; cbn in *; discriminate.
Qed.
Print Assumptions C02_empty_never_accepted.

(* Every class an automaton refers to is registered (wf_dfa is evaluated on every dump with the
   number of registered classes). *)
Theorem C02_classes_registered :
  forall n A, wf_dfa n A = true -> forall q a q', In (a,q') (nth q (trans A) []) -> (a < n)%N /\ q' < length (trans A).
Proof.
  intros n A H q a q' Hin. unfold wf_dfa in H. apply andb_true_iff in H as [_ H].
  rewrite forallb_forall in H.
  destruct (nth_in_or_default q (trans A) []) as [Hq|Hq]; [|rewrite Hq in Hin; destruct Hin].
  specialize (H _ Hq). rewrite forallb_forall in H. specialize (H _ Hin). cbn in H.
  apply andb_true_iff in H as [H1 H2]. apply N.ltb_lt in H1. apply Nat.ltb_lt in H2. auto.
Qed.
Print Assumptions C02_classes_registered.
