(* C10 — scanning resumes correctly from any offset. *)
From Scnr Require Import Base Automaton FindFrom Iter IterRun IterProofs IterInst HistoryProofs.

(* set_offset(o), o on a character boundary or beyond the end (clamped): the cursor is at
   min(o, len), the suffix is the input from there, the mode is unchanged *)
Theorem C10_set_offset :
  forall nmodes st o rest, RInv nmodes st ->
  drop_bytes (Nat.min o (blen (it_input st))) (it_input st) = Some rest ->
  exists st', set_offset st o = Ok st' /\ RInv nmodes st' /\ apos st' = Nat.min o (blen (it_input st)) /\
    it_rest st' = rest /\ it_mode st' = it_mode st /\ it_input st' = it_input st.
Proof.
  intros nmodes st o rest HI Hd. destruct (set_offset_spec nmodes st o rest HI Hd) as (st' & A & B & C & D & E & F & _). eauto 10.
Qed.
Print Assumptions C10_set_offset.

(* the tokens after a reset are those of a scan of the input starting at o in the current
   mode (ascan: the abstract scan over the suffix), with absolute spans ... *)
Theorem C10_tokens_after_reset :
  forall sc nmodes, sc_ok sc nmodes -> forall st o rest st' k, RInv nmodes st ->
  drop_bytes (Nat.min o (blen (it_input st))) (it_input st) = Some rest -> set_offset st o = Ok st' ->
  tokens sc k st' = ascan sc k (it_mode st) (Nat.min o (blen (it_input st))) rest.
Proof.
  intros sc nmodes Hsc st o rest st' k HI Hd Es.
  destruct (set_offset_spec nmodes st o rest HI Hd) as (st2 & A & B & C & D & E & _). rewrite Es in A. inversion A; subst st2.
  rewrite (tokens_ascan sc nmodes Hsc k st' B). congruence.
Qed.
Print Assumptions C10_tokens_after_reset.

(* ... and do not depend on what was scanned before: two iterators over the same input in the
   same mode, whatever their histories, yield the same tokens after set_offset(o) *)
Theorem C10_independent_of_history :
  forall sc nmodes, sc_ok sc nmodes -> forall st1 st2 o st1' st2' k, RInv nmodes st1 -> RInv nmodes st2 ->
  it_input st1 = it_input st2 -> it_mode st1 = it_mode st2 ->
  (exists rest, drop_bytes (Nat.min o (blen (it_input st1))) (it_input st1) = Some rest) ->
  set_offset st1 o = Ok st1' -> set_offset st2 o = Ok st2' ->
  tokens sc k st1' = tokens sc k st2'.
Proof.
  intros sc nmodes Hsc st1 st2 o st1' st2' k H1 H2 Hin Hm (rest & Hd) E1 E2.
  rewrite (C10_tokens_after_reset sc nmodes Hsc st1 o rest st1' k H1 Hd E1).
  rewrite Hin in Hd. rewrite (C10_tokens_after_reset sc nmodes Hsc st2 o rest st2' k H2 Hd E2). congruence.
Qed.
Print Assumptions C10_independent_of_history.

(* advance_to(p) with p a character boundary beyond the cursor (in particular the end of a
   match obtained from peek_n, see C10_peeked_ends_are_boundaries): the cursor is exactly p, so the next token is the one that follows;
   whether or not the iterator was reset before is irrelevant (the statement is about every
   reachable state) *)
Theorem C10_advance_lands :
  forall nmodes st p s', RInv nmodes st -> apos st < p -> drop_bytes (p - apos st) (it_rest st) = Some s' ->
  exists st' r, advance_to st p = Ok (st', r) /\ it_rest st' = s' /\ apos st' = p /\ RInv nmodes st' /\
    it_mode st' = it_mode st /\ it_input st' = it_input st.
Proof.
  intros nmodes st p s' HI Hlt Hd. destruct (advance_to_lands nmodes st p s' HI Hlt Hd) as (st' & r & A & B & C & D & E & F & _). eauto 10.
Qed.
Print Assumptions C10_advance_lands.

(* a position that is not beyond the cursor leaves the iterator untouched *)
Theorem C10_advance_not_beyond_noop :
  forall nmodes st p, RInv nmodes st -> p <= apos st -> advance_to st p = Ok (st, it_last_position st).
Proof. exact advance_to_noop. Qed.
Print Assumptions C10_advance_not_beyond_noop.

(* the end of the token next returns is where the cursor is afterwards; together with
   C11_peek_is_iterated_next the ends of peeked matches are boundaries beyond the cursor *)
Theorem C10_next_cursor_is_token_end :
  forall sc nmodes, sc_ok sc nmodes -> forall st st' t a b, RInv nmodes st -> next_match sc st = Ok (st', Some (t, a, b)) ->
  apos st' = b /\ apos st <= a /\ a < b /\ drop_bytes b (it_input st) = Some (it_rest st').
Proof.
  intros sc nmodes Hsc st st' t a b HI En. pose proof (next_match_spec sc nmodes Hsc st HI) as Hn.
  destruct (anext sc _ _ _ _) as [[[[m' p'] s'] tok]|] eqn:Ea; [|destruct Hn].
  destruct Hn as (st2 & En2 & HI2 & Hm & Hp & Hr & Hin).
  assert (Eq : st2 = st' /\ tok = Some (t, a, b)) by (rewrite En in En2; inversion En2; auto). destruct Eq as [-> ->].
  destruct HI as (Hs & _).
  destruct (anext_token sc nmodes Hsc _ _ _ _ _ _ _ _ _ _ _ Hs Ea) as (A1 & A2 & A3 & A4 & _).
  repeat split; try lia; congruence.
Qed.
Print Assumptions C10_next_cursor_is_token_end.
