(* C05 — Choice among lookahead candidates follows the trailing-context rule.
   Property theorems only; proofs are in FindFromProofs.v / ModeProofs.v. *)
From Scnr Require Import Base Regex Automaton FindFrom FindFromProofs ModeProofs RuleProofs Spec SpecRun SpecProofs FindFirstProofs SpecFirstProofs.

(* For every class predicate, every mode automaton with lookahead automata whose accepting
   token types are listed in terminal_ids, and every haystack s: find_from never panics; it
   returns None iff no (pattern, length) candidate with satisfied lookahead exists; otherwise
   span end e and token type t belong to one and the same candidate (k characters, l bytes of
   trailing context), and every candidate has a smaller extent (own length + longest positive
   lookahead match, in bytes), or the same extent and a pattern that is not listed earlier. *)
Theorem C05_selection :
  forall (tbl:N -> N -> bool) (M:mode_aut), mode_ok M -> forall s,
  match find_mode tbl M s with
  | Panic => False
  | Ok None => forall k l t, ~ MCand tbl M s k l t
  | Ok (Some (t, e)) =>
      exists k l, e = bpos s k /\ MCand tbl M s k l t /\
        forall k' l' t', MCand tbl M s k' l' t' ->
          bpos s k' + l' < e + l \/ (bpos s k' + l' = e + l /\ mprio M t <= mprio M t')
  end.
Proof. exact find_mode_spec. Qed.
Print Assumptions C05_selection.

(* the same for a single automaton with an arbitrary lookahead oracle *)
Theorem C05_selection_generic :
  forall tbl A la, (forall t rest, la t rest <> Panic) -> (forall q t, acc A q t = true -> In t (tids A)) ->
  forall s,
  match find_from tbl A la s with
  | Panic => False
  | Ok None => forall k l t, ~ Cand tbl A la s k l t
  | Ok (Some (t,e)) =>
      exists k l, e = bpos s k /\ Cand tbl A la s k l t /\
        forall k' l' t', Cand tbl A la s k' l' t' -> le_c A (bpos s k', l', t') (e, l, t)
  end.
Proof. exact find_from_spec. Qed.
Print Assumptions C05_selection_generic.

(* Among the maximal candidates find_from reports the one that ends first, so its result is
   uniquely determined ... *)
Theorem C05_first_among_maximal :
  forall tbl A la, (forall t rest, la t rest <> Panic) -> (forall q t, acc A q t = true -> In t (tids A)) ->
  forall s t e k l, find_from tbl A la s = Ok (Some (t, e)) -> e = bpos s k -> Cand tbl A la s k l t ->
  forall k' l' t', Cand tbl A la s k' l' t' -> le_c A (e, l, t) (bpos s k', l', t') -> e <= bpos s k'.
Proof. intros tbl A la H1 H2. exact (find_from_first tbl A la H1 H2). Qed.
Print Assumptions C05_first_among_maximal.

(* ... and it IS the executable specification used as oracle by the correspondence check
   (Spec.v best_cand on the pattern ASTs: maximal extent, then earliest pattern, then earliest
   end), for every mode — with positive, negative and no lookaheads — whose automata accept the
   pattern languages (per-automaton C02 certificates), with distinct token types in pattern order. *)
Theorem C05_find_equals_specification :
  forall (tbl leaf:N -> N -> bool) (M:mode_aut) (ps:list spat),
  mode_ok M -> tids (main M) = map sp_tok ps -> NoDup (map sp_tok ps) ->
  lang_equiv tbl leaf (main M) (rs_of ps) ->
  (forall p, In p ps ->
     match sp_la p with
     | None => nassoc (sp_tok p) (las M) = None
     | Some (pos, r) => exists D, nassoc (sp_tok p) (las M) = Some (pos, D) /\
                          forall w, w <> [] -> ((exists t', accepts_tok tbl D w t') <-> mt leaf r w)
     end) ->
  forall s, find_mode tbl M s = Ok (best_cand leaf ps s).
Proof. exact find_mode_eq_best_cand_la. Qed.
Print Assumptions C05_find_equals_specification.

(* the boolean well-formedness test used on dumped automata implies the hypothesis *)
Theorem C05_mode_okb_sound : forall M, mode_okb M = true -> mode_ok M.
Proof. exact mode_okb_ok. Qed.
Print Assumptions C05_mode_okb_sound.

(* Non-vacuity: ab(?=c)#0, a#1 (the automaton scnr compiles, classes 0='a' 1='b' 2='c') on "abc":
   the hypotheses hold and the reported token is type 0 ending at byte 2. *)
Definition ex_tbl (a c:N) : bool := N.eqb c (97 + a).
Definition ex_la : dfa := {| trans := [[(2%N,1)]; []]; fin := [(false,0%N); (true,0%N)]; tids := [0%N] |}.
Definition ex_mode : mode_aut :=
  {| main := {| trans := [[(0%N,1); (0%N,3)]; [(1%N,2)]; []; []];
                fin := [(false,0%N); (false,0%N); (true,0%N); (true,1%N)]; tids := [0%N; 1%N] |};
     las := [(0%N, (true, ex_la))] |}.
Example C05_nonvacuous :
  mode_okb ex_mode = true /\ find_mode ex_tbl ex_mode [97; 98; 99]%N = Ok (Some (0%N, 2)).
Proof. vm_compute. split; reflexivity. Qed.

(* THE ORACLE. The judge of token streams (Spec.check_stream) accepts a token at a position exactly
   when it is a maximal candidate in the sense of the property: a pattern matches that prefix in full
   with its lookahead condition satisfied, and no candidate has a larger extent, or the same extent and
   an earlier pattern. The deterministic specification always delivers such a token. *)
From Scnr Require Import OracleProofs.
Theorem C05_oracle_is_the_rule :
  forall leaf ps s t e,
  is_max_cand leaf ps s t e = true <->
  exists x i, SCand leaf ps s x i t e /\
    forall x' i' t' e', SCand leaf ps s x' i' t' e' -> ~ (x < x' \/ (x' = x /\ i' < i)).
Proof. exact is_max_cand_spec. Qed.
Print Assumptions C05_oracle_is_the_rule.

Theorem C05_specification_accepted_by_oracle :
  forall leaf ps s t e, best_cand leaf ps s = Some (t, e) -> is_max_cand leaf ps s t e = true.
Proof. exact best_cand_is_max. Qed.
Print Assumptions C05_specification_accepted_by_oracle.
