(* C02 (class registry) — "One class/leaf namespace" made explicit: the class id of a leaf is the
   position CharacterClassRegistry::add_character_class gives it (lookup by ComparableAst equality,
   push when absent). Property theorems only; proofs in Registry.v. The registration order (leaves of
   the pattern ASTs of a mode depth first in pattern order, then of its lookahead ASTs; modes in order)
   and the equality actually used (equal printed form) are compared with the implementation's
   registry on every run (lib/props.py C02Full: the dumped class list against `assign` evaluated in
   Coq on the parsed leaves). *)
From Scnr Require Import Base Regex Spec Registry.

(* every occurrence of a leaf gets a class id whose registered leaf denotes the same set, for any
   equality that is sound for the denotation *)
Theorem C02_registry_assign_denotes :
  forall (L:Type) (eqc:L -> L -> bool) (den:L -> N -> bool),
  (forall a b, eqc a b = true -> forall c, den a c = den b c) ->
  forall occ ids reg, assign L eqc [] occ = (ids, reg) ->
  forall k l, nth_error occ k = Some l -> exists i, nth_error ids k = Some i /\
    forall c, tbl_of L den reg (N.of_nat i) c = den l c.
Proof. exact assign_denotes. Qed.
Print Assumptions C02_registry_assign_denotes.

(* ids are positions in a vector that only grows; one id per occurrence *)
Theorem C02_registry_assign_spec :
  forall (L:Type) (eqc:L -> L -> bool) occ reg ids reg', assign L eqc reg occ = (ids, reg') ->
  (exists ext, reg' = reg ++ ext) /\ length ids = length occ /\
  forall k l, nth_error occ k = Some l ->
    exists i x, nth_error ids k = Some i /\ nth_error reg' i = Some x /\ (x = l \/ eqc x l = true).
Proof. exact assign_spec. Qed.
Print Assumptions C02_registry_assign_spec.

(* no two registered classes are equal (each class is compiled into one match function) *)
Theorem C02_registry_distinct :
  forall (L:Type) (eqc:L -> L -> bool) occ, distinct L eqc (snd (assign L eqc [] occ)).
Proof. intros L eqc occ. apply assign_distinct. intros i j x y _ Hi. destruct i; discriminate. Qed.
Print Assumptions C02_registry_distinct.

(* a pattern relabelled by the assigned class ids and interpreted with the registry's match
   function matches exactly the words the pattern over the parser's own leaves matches *)
Theorem C02_relabelled_pattern_matches_the_same :
  forall (L:Type) (eqc:L -> L -> bool) (den:L -> N -> bool),
  (forall a b, eqc a b = true -> forall c, den a c = den b c) ->
  forall occ ids reg, assign L eqc [] occ = (ids, reg) ->
  forall a r, core_of_ast a = Some r -> re_leaves_ok L occ r ->
  exists r', core_of_ast (relabel (id_of ids) a) = Some r' /\
    forall w, mt (tbl_of L den reg) r' w <-> mt (den_occ L den occ) r w.
Proof. exact relabelled_pattern_matches_the_same. Qed.
Print Assumptions C02_relabelled_pattern_matches_the_same.
