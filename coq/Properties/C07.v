(* C07 — token streams are well-formed and scanning always makes progress. *)
From Coq Require Import Sorted.
From Scnr Require Import Base Automaton FindFrom FindFromProofs ModeProofs Iter IterRun IterProofs IterInst HistoryProofs.

(* a reported match of a mode is never empty and lies inside the haystack *)
Theorem C07_find_from_nonempty :
  forall tbl M, mode_ok M -> forall s t e, find_mode tbl M s = Ok (Some (t, e)) -> 0 < e <= blen s.
Proof. exact find_mode_nonempty. Qed.
Print Assumptions C07_find_from_nonempty.

(* the tokens of any number of next calls from a reachable state: each span is non-empty, lies
   within the input on character boundaries, starts at or after the end of the previous one
   (and at or after the cursor), and there is at most one token per remaining character *)
Theorem C07_stream_wf :
  forall sc nmodes, sc_ok sc nmodes -> forall k st, RInv nmodes st ->
  let toks := tokens sc k st in
  Forall (fun tok => let '(t, a, b) := tok in apos st <= a /\ a < b /\ b <= blen (it_input st) /\
                     (exists sa, drop_bytes a (it_input st) = Some sa) /\ (exists sb, drop_bytes b (it_input st) = Some sb)) toks /\
  StronglySorted (fun x y => snd x <= snd (fst y)) toks /\
  length toks <= length (it_rest st).
Proof.
  intros sc nmodes Hsc k st HI. cbn zeta. rewrite (tokens_ascan sc nmodes Hsc k st HI).
  destruct HI as (Hs & _ & Hm). apply (ascan_wf sc nmodes Hsc k _ _ _ _ Hm Hs).
Qed.
Print Assumptions C07_stream_wf.

(* once next has returned None it keeps returning None *)
Theorem C07_none_is_sticky :
  forall sc nmodes, sc_ok sc nmodes -> forall st st', RInv nmodes st -> next_match sc st = Ok (st', None) ->
  RInv nmodes st' /\ exists st'', next_match sc st' = Ok (st'', None).
Proof.
  intros sc nmodes Hsc st st' HI En. pose proof (next_match_spec sc nmodes Hsc st HI) as Hn.
  destruct (anext sc _ _ _ _) as [[[[m' p'] s'] tok]|] eqn:Ea; [|destruct Hn].
  destruct Hn as (st2 & En2 & HI2 & Hm & Hp & Hr & Hin).
  assert (Eq : st2 = st' /\ tok = None) by (rewrite En in En2; inversion En2; auto). destruct Eq as [-> ->].
  split; [exact HI2|]. destruct HI as (Hs & _).
  destruct (anext_none sc _ _ _ _ _ _ _ _ Hs Ea) as (_ & Hs' & _).
  pose proof (next_match_spec sc nmodes Hsc st' HI2) as Hn'. rewrite Hr, Hs' in Hn'. cbn [length] in Hn'.
  destruct HI2 as (_ & _ & Hm2). rewrite (anext_nil sc nmodes Hsc 0 _ _ Hm2) in Hn'.
  destruct Hn' as (st3 & E3 & _). exists st3. exact E3.
Qed.
Print Assumptions C07_none_is_sticky.

(* no history of valid operations panics (set_offset on a character boundary or beyond the
   end, set_mode to an existing mode; next, peek_n, advance_to, position with any argument) *)
Theorem C07_scan_never_panics :
  forall sc nmodes, sc_ok sc nmodes -> forall ops st, RInv nmodes st -> Forall (op_valid nmodes (it_input st)) ops ->
  exists st' outs, run_history sc st ops = Some (st', outs) /\ RInv nmodes st'.
Proof.
  intros sc nmodes Hsc ops st HI Hv.
  destruct (history_total sc nmodes Hsc ops st HI Hv) as (st' & outs & E & HI' & _). eauto.
Qed.
Print Assumptions C07_scan_never_panics.

(* ... in particular for the compiled modes of every valid configuration, from a fresh iterator *)
Theorem C07_compiled_never_panics :
  forall tbl modes input ops sm, modes_okb modes = true -> 0 < length modes ->
  Forall (op_valid (length modes) input) ops ->
  exists st' outs, run_history (impl_scanner tbl modes) (find_iter sm input) ops = Some (st', outs).
Proof.
  intros tbl modes input ops sm Hok Hn Hv.
  destruct (history_total (impl_scanner tbl modes) (length modes) (impl_scanner_ok tbl modes (modes_okb_ok _ Hok)) ops
              (find_iter sm input) (find_iter_RInv _ sm input Hn) Hv) as (st' & outs & E & _). eauto.
Qed.
Print Assumptions C07_compiled_never_panics.

(* for scanners built (in the model of the pipeline) from ANY source configuration with at least
   one mode whose transitions lead to existing modes: no call of any valid history panics. The
   well-formedness of the compiled modes is proved (EndToEnd2.built_modes_ok), not assumed. *)
From Scnr Require Import Nfa Compile EndToEnd EndToEnd2.
Theorem C07_built_scanner_never_panics :
  forall tbl l cms, build_scanner l = Some cms -> 0 < length l -> trans_valid l ->
  forall input ops sm, Forall (op_valid (length cms) input) ops ->
  exists st' outs, run_history (impl_scanner tbl cms) (find_iter sm input) ops = Some (st', outs).
Proof. exact built_scanner_never_panics. Qed.
Print Assumptions C07_built_scanner_never_panics.
