(* C18 — The DOT export is a faithful picture of the compiled automata.
   Property theorems only; definitions are in Dot.v, proofs in DotProofs.v.

   Model: dot.rs compiled_dfa_render / render_compiled_dfa over dot_writer 0.1.4 (pretty
   printing), called once per scanner mode by ScannerImpl::generate_compiled_automata_as_dot.
   A file is a list of lines, a line a list of Unicode scalar values.  M = (main automaton,
   lookaheads as (token type, (is_positive, automaton)) in the order the hash map lists them);
   cls_text c = the label text of class c (escape_debug of the class's printed AST, or "-"). *)
From Scnr Require Import Base Automaton Dot DotProofs FindFrom Nfa Compile CompileProofs.
From Coq Require Import String.

(* Reading the written file back yields exactly the graph of the automata:
   wf_dot M    : trans/fin of equal length, every transition target below the number of states
                 (main automaton and every lookahead);
   label_safe  : for every class id c used by a transition of M, text_ok (cls_text c) = true, i.e.
                 the text has no newline, no unescaped double quote, and does not end in an
                 unescaped backslash (a backslash escapes the next character).
   The title is arbitrary. *)
Theorem C18_render_faithful :
  forall (title:list N) (cls_text:N -> list N) (M:dfa * list (N * (bool * dfa))),
  wf_dot M = true -> label_safe cls_text M ->
  extract (render title cls_text M) = Some (dotfile_of M).
Proof. exact render_faithful. Qed.
Print Assumptions C18_render_faithful.

(* the same for the flat character sequence written to the file (every line ends in '\n'),
   provided the title has no newline either *)
Theorem C18_render_text_faithful :
  forall title cls_text M,
  no_nl title = true -> wf_dot M = true -> label_safe cls_text M ->
  extract_text (render_text title cls_text M) = Some (dotfile_of M).
Proof. exact render_text_faithful. Qed.
Print Assumptions C18_render_text_faithful.

(* spelled out: one node per state in order; an accepting label (q, Some t) exactly for the
   accepting states q <> 0 with their token type; one edge per transition, in order, with its
   class id; one cluster per lookahead with its token type, polarity and automaton *)
Theorem C18_nodes_edges_exact :
  forall title cls_text A las,
  wf_dot (A, las) = true -> label_safe cls_text (A, las) ->
  exists d, extract (render title cls_text (A, las)) = Some d /\
    map fst (g_nodes (d_main d)) = seq 0 (List.length (trans A)) /\
    (forall q t, In (q, Some t) (g_nodes (d_main d)) <->
       q <> 0 /\ q < List.length (trans A) /\ nth q (fin A) (false, 0%N) = (true, t)) /\
    (forall q, In (q, None) (g_nodes (d_main d)) <->
       q < List.length (trans A) /\ (q = 0 \/ fst (nth q (fin A) (false, 0%N)) = false)) /\
    map (fun e : nat * nat * N => (snd e, snd (fst e))) (g_edges (d_main d)) = List.concat (trans A) /\
    (forall s t c, In (s, t, c) (g_edges (d_main d)) <-> In (c, t) (nth s (trans A) [])) /\
    map (fun x : N * bool * graph => (fst (fst x), snd (fst x))) (d_clusters d)
      = map (fun x : N * (bool * dfa) => (fst x, fst (snd x))) las /\
    map snd (d_clusters d) = map (fun x : N * (bool * dfa) => graph_of (snd (snd x))) las.
Proof. exact nodes_edges_exact. Qed.
Print Assumptions C18_nodes_edges_exact.

(* every printed line is read back as itself: the class id is taken from the LAST " (C#n)" of an
   edge label, whatever the class text before it contains *)
Theorem C18_line_roundtrip : forall l, line_ok l -> parse_line (print_line l) = Some l.
Proof. exact parse_print_line. Qed.
Print Assumptions C18_line_roundtrip.

Theorem C18_last_class_id :
  forall text c, parse_edge_tail (text ++ s_cls_open ++ decn c ++ s_edge_end)
                 = if text_ok text then Some (text, c) else None.
Proof. exact parse_edge_tail_gen. Qed.
Print Assumptions C18_last_class_id.

(* the boolean form of label_safe used on dumps *)
Theorem C18_label_safeb : forall cls_text M, label_safeb cls_text M = true <-> label_safe cls_text M.
Proof. exact label_safeb_spec. Qed.
Print Assumptions C18_label_safeb.

(* one file per mode, named <folder>/<prefix>_<mode name>.dot; distinct modes, distinct files *)
Theorem C18_file_names :
  forall folder prefix names,
  file_names folder prefix names
  = map (fun n => folder ++ str "/" ++ prefix ++ str "_" ++ n ++ str ".dot") names
  /\ List.length (file_names folder prefix names) = List.length names.
Proof. exact file_names_spec. Qed.
Print Assumptions C18_file_names.

Theorem C18_file_name_inj :
  forall folder prefix n1 n2, file_name folder prefix n1 = file_name folder prefix n2 -> n1 = n2.
Proof. exact file_name_inj. Qed.
Print Assumptions C18_file_name_inj.

(* node IDs are unique in the whole file: the name of a node determines its cluster (None = main automaton,
   Some t = the lookahead of token type t) and its state *)
Theorem C18_node_names_injective :
  forall p id p' id', name_chars p id = name_chars p' id' -> p = p' /\ id = id'.
Proof. exact name_chars_inj. Qed.
Print Assumptions C18_node_names_injective.

(* THE START STATE. The renderer draws state 0 without an accepting label even if it accepts (the
   `q <> 0` above). For the picture to show EXACTLY the accepting states, state 0 must not accept:
   then the accepting labels are exactly the accepting states with their token types. *)
Theorem C18_accepting_labels_exact :
  forall title cls_text A las,
  wf_dot (A, las) = true -> label_safe cls_text (A, las) -> fst (nth 0 (fin A) (false, 0%N)) = false ->
  exists d, extract (render title cls_text (A, las)) = Some d /\
    forall q t, In (q, Some t) (g_nodes (d_main d)) <->
      q < List.length (trans A) /\ nth q (fin A) (false, 0%N) = (true, t).
Proof.
  intros title cls_text A las Hwf Hsafe H0.
  destruct (nodes_edges_exact title cls_text A las Hwf Hsafe) as (d & Hd & _ & Hacc & _).
  exists d. split; [exact Hd|]. intros q t. rewrite Hacc. split.
  - intros (_ & Hq & Hf). auto.
  - intros (Hq & Hf). split; [|auto]. intros ->. rewrite Hf in H0. discriminate.
Qed.
Print Assumptions C18_accepting_labels_exact.

(* ... and the automata the pipeline compiles never accept in state 0 (the empty word is never a
   token); every run additionally checks it on every automaton the implementation dumped *)
Theorem C18_compiled_start_not_accepting :
  forall pats A, mode_width_ok pats = true -> compile_mode pats = Compiled A ->
  fst (nth 0 (fin A) (false, 0%N)) = false.
Proof.
  intros pats A Hw HA. pose proof (compile_mode_empty_word (fun _ _ => false) pats A Hw HA) as H.
  destruct (nth 0 (fin A) (false, 0%N)) as [b t0] eqn:E; destruct b; [|reflexivity]. exfalso.
  apply (H t0). exists 0. split; [left; reflexivity|]. unfold acc. rewrite E. apply N.eqb_refl.
Qed.
Print Assumptions C18_compiled_start_not_accepting.
