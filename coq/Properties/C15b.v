(* C15b — the build of a whole configuration is total and rejects exactly the unsupported.
   Property theorems only; definitions are in Build.v (model of ScannerImpl::try_from, see the
   header of Build.v for what is modelled, what is proved and what is only observed), proofs in
   BuildProofs.v. The table of supported \p classes is regenerated from match_function.rs on every
   run (Gen/UnicodeNames.v); the theorems hold for every table. *)
From Scnr Require Import Base Regex Automaton FindFrom Spec Nfa NfaProofs Build BuildProofs.
From Scnr.Gen Require Import UnicodeNames.

(* For every configuration (any number of modes, patterns, lookaheads; every string either a
   syntax error or any AST with any class descriptors) the build does not panic. Rests on
   C15_try_from_ast_total; the steps listed as "observed" in Build.v are assumed not to panic. *)
Theorem C15_build_total : forall letters names cfg, build_outcome_with letters names cfg <> Panicked3.
Proof. exact build_total. Qed.
Print Assumptions C15_build_total.

Theorem C15_build_total_current : forall cfg, build_outcome cfg <> Panicked3.
Proof. exact (build_total unicode_letters unicode_names). Qed.
Print Assumptions C15_build_total_current.

(* A syntax error, an unsupported construct at any depth of the AST (supported a = false), or a
   Unicode class outside the table among the class leaves (collected at any nesting depth) of any
   pattern or lookahead of any mode: the build is rejected. *)
Theorem C15_unsupported_anywhere_rejected : forall letters names cfg m p it,
  In m cfg -> In p m -> In it (items_of_pat p) ->
  (it = PSyntaxError \/
   exists a cls, it = PAst a cls /\
     (supported a = false \/ exists u, In u cls /\ class_supported letters names u = false)) ->
  build_outcome_with letters names cfg = Rejected.
Proof. exact unsupported_anywhere_rejected. Qed.
Print Assumptions C15_unsupported_anywhere_rejected.

(* "supported a = false" says exactly: a Flags item, an assertion, a non-greedy repetition or a
   flag-setting group is a sub-AST at some depth. *)
Theorem C15_unsupported_iff_bad_node : forall a,
  supported a = false <->
  exists s, subterm s a /\
    (s = AFlags \/ s = AAssertion \/ (exists k a', s = ARep k false a') \/ (exists a', s = AGroup true a')).
Proof. exact unsupported_iff_bad_node. Qed.
Print Assumptions C15_unsupported_iff_bad_node.

(* All ASTs supported and all Unicode classes in the table: the build succeeds. *)
Theorem C15_supported_builds_config : forall letters names cfg,
  (forall it, In it (items cfg) -> exists a cls, it = PAst a cls /\ supported a = true /\
                                   forall u, In u cls -> class_supported letters names u = true) ->
  build_outcome_with letters names cfg = BuiltOk.
Proof. exact supported_builds_config. Qed.
Print Assumptions C15_supported_builds_config.

(* both directions at once *)
Theorem C15_build_ok_iff : forall letters names cfg,
  build_outcome_with letters names cfg = BuiltOk <-> forall it, In it (items cfg) -> item_ok letters names it = true.
Proof. exact build_ok_iff. Qed.
Print Assumptions C15_build_ok_iff.

Theorem C15_build_rejected_iff : forall letters names cfg,
  build_outcome_with letters names cfg = Rejected <-> exists it, In it (items cfg) /\ item_ok letters names it = false.
Proof. exact build_rejected_iff. Qed.
Print Assumptions C15_build_rejected_iff.

(* ---------- non-vacuity ---------- *)
(* a(?i:b*?) as the lookahead of the second pattern of the second mode: rejected, and it is the
   only reason (without it the configuration builds) *)
Example C15_ex_nested_rejected :
  let bad := PAst (AConcat [ALeaf 0; AGroup false (AAlt [ALeaf 1; ARep RZeroOrMore false (ALeaf 2)])]) [] in
  let ok := PAst (ARep (RBounded 1 2) true (ALeaf 0)) [] in
  build_outcome [[mk_bpat ok None]; [mk_bpat ok None; mk_bpat ok (Some bad)]] = Rejected /\
  build_outcome [[mk_bpat ok None]; [mk_bpat ok None; mk_bpat ok (Some ok)]] = BuiltOk.
Proof. exact ex_nested_rejected. Qed.


Example C15_ex_hypothesis_met :
  let bad := PAst (AConcat [ALeaf 0; AGroup false (AAlt [ALeaf 1; ARep RZeroOrMore false (ALeaf 2)])]) [] in
  supported (AConcat [ALeaf 0; AGroup false (AAlt [ALeaf 1; ARep RZeroOrMore false (ALeaf 2)])]) = false /\
  subterm (ARep RZeroOrMore false (ALeaf 2)) (AConcat [ALeaf 0; AGroup false (AAlt [ALeaf 1; ARep RZeroOrMore false (ALeaf 2)])]).
Proof. exact ex_hypothesis_met. Qed.


(* a syntax error in the first mode; a name=value class in any table *)
Example C15_ex_syntax_rejected : forall letters names,
  build_outcome_with letters names [[mk_bpat PSyntaxError None]; [mk_bpat (PAst (ALeaf 0) []) None]] = Rejected.
Proof. exact ex_syntax_rejected. Qed.

Example C15_ex_value_class_rejected : forall letters names,
  build_outcome_with letters names [[mk_bpat (PAst (ALeaf 0) [UValue]) None]] = Rejected.
Proof. exact ex_value_class_rejected. Qed.


(* with the table { \pL ; \p{Ab} }: \pL and \p{Ab} build, \pX and \p{Ac} and \p{L} are rejected,
   also when the class is only one of several descriptors of a bracketed leaf *)
Example C15_ex_table :
  let b := build_outcome_with [76] [[65; 98]] in
  b [[mk_bpat (PAst (ALeaf 0) [UOne 76; UNamed [65; 98]]) None]] = BuiltOk /\
  b [[mk_bpat (PAst (ALeaf 0) [UOne 88]) None]] = Rejected /\
  b [[mk_bpat (PAst (ALeaf 0) [UOne 76; UNamed [65; 99]]) None]] = Rejected /\
  b [[mk_bpat (PAst (ALeaf 0) [UNamed [76]]) None]] = Rejected.
Proof. exact ex_table. Qed.


(* a class below a repetition with count 0 is still registered and compiled: (\pX){0} *)
Example C15_ex_class_under_zero_rep :
  build_outcome_with [76] [] [[mk_bpat (PAst (ARep (RExactly 0) true (ALeaf 0)) [UOne 88]) None]] = Rejected.
Proof. exact ex_class_under_zero_rep. Qed.


(* the empty configuration and a mode without patterns build *)
Example C15_ex_empty : build_outcome [] = BuiltOk /\ build_outcome [[]] = BuiltOk.
Proof. exact ex_empty. Qed.

