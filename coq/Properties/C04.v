(* C04 — a lookahead gates its pattern and is never consumed. *)
From Scnr Require Import Base Regex Automaton FindFrom FindFromProofs ModeProofs Iter IterRun IterProofs IterInst
     HistoryProofs RuleProofs.

(* Hypotheses, for a mode automaton M with lookahead automata: the main automaton accepts
   exactly the languages of the patterns rs (lang_equiv) and every lookahead automaton exactly
   its lookahead pattern (la_equiv) — both are per-automaton C02 certificates.
   la_cond leaf lrs t rest is the lookahead condition stated on the PATTERNS: none -> True;
   positive -> some non-empty prefix of rest matches the lookahead pattern; negative -> none
   does. *)

(* A reported token (t, e): e is the end of a full match of a pattern of type t (k characters;
   the token's text never includes lookahead text) and the lookahead condition of t holds on
   the text after it. *)
Theorem C04_reported_token_is_gated :
  forall tbl leaf M rs lrs, mode_ok M -> lang_equiv tbl leaf (main M) rs -> la_equiv tbl leaf M lrs ->
  (forall t, nassoc t (las M) = None -> nassoc t lrs = None) ->
  forall s t e, find_mode tbl M s = Ok (Some (t, e)) ->
  exists k, e = bpos s k /\ pmatch leaf rs s k t /\ la_cond leaf lrs t (skipn k s).
Proof. intros tbl leaf M rs lrs Mok He Hl Hd. exact (find_gated tbl leaf M rs Mok He lrs Hl Hd). Qed.
Print Assumptions C04_reported_token_is_gated.

(* Conversely, whenever some pattern matches a non-empty prefix with its lookahead condition
   satisfied, a token starting at that position is reported. *)
Theorem C04_completeness :
  forall tbl leaf M rs lrs, mode_ok M -> lang_equiv tbl leaf (main M) rs -> la_equiv tbl leaf M lrs ->
  (forall t, nassoc t (las M) = None -> nassoc t lrs = None) ->
  forall s, (exists k t, pmatch leaf rs s k t /\ la_cond leaf lrs t (skipn k s)) ->
  exists t e, find_mode tbl M s = Ok (Some (t, e)).
Proof. intros tbl leaf M rs lrs Mok He Hl Hd. exact (find_complete tbl leaf M rs Mok He lrs Hl Hd). Qed.
Print Assumptions C04_completeness.

(* at the end of the input a positive lookahead fails and a negative one holds *)
Theorem C04_end_of_input :
  forall leaf lrs t, la_cond leaf lrs t [] <-> match nassoc t lrs with Some (true, _) => False | _ => True end.
Proof. exact la_cond_at_end. Qed.
Print Assumptions C04_end_of_input.

(* The lookahead text is scanned again for the following token: after next returned (t, a, b)
   the cursor is b, the end of the pattern's own match, and the following scan starts there.
   This holds in every reachable state, in particular after set_offset / with_offset (C10). *)
Theorem C04_rest_is_rescanned :
  forall sc nmodes, sc_ok sc nmodes -> forall st st' t a b, RInv nmodes st -> next_match sc st = Ok (st', Some (t, a, b)) ->
  apos st' = b /\ drop_bytes b (it_input st) = Some (it_rest st') /\ RInv nmodes st'.
Proof.
  intros sc nmodes Hsc st st' t a b HI En. pose proof (next_match_spec sc nmodes Hsc st HI) as Hn.
  destruct (anext sc _ _ _ _) as [[[[m' p'] s'] tok]|] eqn:Ea; [|destruct Hn].
  destruct Hn as (st2 & En2 & HI2 & Hm & Hp & Hr & Hin).
  assert (Eq : st2 = st' /\ tok = Some (t, a, b)) by (rewrite En in En2; inversion En2; auto). destruct Eq as [-> ->].
  destruct HI as (Hs & _).
  destruct (anext_token sc nmodes Hsc _ _ _ _ _ _ _ _ _ _ _ Hs Ea) as (_ & _ & A3 & A4 & _).
  split; [congruence|]. split; [congruence|exact HI2].
Qed.
Print Assumptions C04_rest_is_rescanned.

(* the token next returns is the find of the current mode on the suffix where it starts: the
   haystack handed to find_from is the input from the token's start, for every start offset *)
Theorem C04_any_offset :
  forall sc nmodes, sc_ok sc nmodes -> forall st st' t a b, RInv nmodes st -> next_match sc st = Ok (st', Some (t, a, b)) ->
  exists sa, drop_bytes a (it_input st) = Some sa /\ sc_find sc (it_mode st) sa = Ok (Some (t, b - a)).
Proof.
  intros sc nmodes Hsc st st' t a b HI En. pose proof (next_match_spec sc nmodes Hsc st HI) as Hn.
  destruct (anext sc _ _ _ _) as [[[[m' p'] s'] tok]|] eqn:Ea; [|destruct Hn].
  destruct Hn as (st2 & En2 & _).
  assert (Eq : tok = Some (t, a, b)) by (rewrite En in En2; inversion En2; auto). subst tok.
  destruct HI as (Hs & _).
  destruct (anext_token sc nmodes Hsc _ _ _ _ _ _ _ _ _ _ _ Hs Ea) as (_ & _ & _ & _ & A5 & _). exact A5.
Qed.
Print Assumptions C04_any_offset.
