(* C15 — unsupported features are rejected, the NFA construction is total.
   Property theorems only; definitions are in Nfa.v (transcription of scnr/src/internal/nfa.rs),
   proofs in NfaProofs.v. *)
From Scnr Require Import Base Regex Automaton FindFrom Spec Nfa NfaProofs.

(* Nfa::try_from_ast hits none of its panic sites (index out of range in add_transition /
   add_epsilon_transition, the out-degree debug_assert, the id = index debug_assert of append),
   for every AST. *)
Theorem C15_try_from_ast_total : forall a, try_from_ast a <> Panicked.
Proof. exact try_from_ast_total. Qed.
Print Assumptions C15_try_from_ast_total.

(* `supported` is false iff a Flags item, an assertion, a non-greedy repetition or a
   non-capturing group that sets a flag occurs at any depth. *)
Theorem C15_supported_builds : forall a, supported a = true -> exists n, try_from_ast a = Built n.
Proof. exact supported_builds. Qed.
Print Assumptions C15_supported_builds.

Theorem C15_unsupported_rejected : forall a, supported a = false -> try_from_ast a = Unsupported.
Proof. exact unsupported_rejected. Qed.
Print Assumptions C15_unsupported_rejected.

(* the specification (Spec.core_of_ast) has a translation exactly for the supported ASTs *)
Theorem C15_supported_iff_core : forall a, supported a = true <-> core_of_ast a <> None.
Proof. exact supported_core. Qed.
Print Assumptions C15_supported_iff_core.

(* every built NFA: ids are indices, out-degree <= 2, all targets in range, start and end in
   range, the end state has no outgoing edge *)
Theorem C15_built_wf : forall a n, try_from_ast a = Built n ->
  (forall q, q < length (nstates n) -> sid_at n q = Some q) /\
  (forall q, length (out_eps n q) + length (out_trs n q) <= 2) /\
  (forall q t, In t (out_eps n q) -> t < length (nstates n)) /\
  (forall q cc t, In (cc,t) (out_trs n q) -> t < length (nstates n)) /\
  nstart n < length (nstates n) /\ nend n < length (nstates n) /\
  out_eps n (nend n) = [] /\ out_trs n (nend n) = [].
Proof. exact built_wf. Qed.
Print Assumptions C15_built_wf.

(* ---------- Thompson correctness (used by C02) ---------- *)
(* The NFA built for a pattern recognises exactly the language of the pattern's core regular
   expression, for every class predicate tbl. nfa_lang: paths from the start state to the end
   state over epsilon edges and class-labelled edges (cc,to) consuming one character c with
   tbl cc c = true. Hypothesis alts_nonempty: no alternation without alternatives occurs
   (regex_syntax never produces one); without it the statement is false, see below. *)
Theorem C02_thompson_correct : forall tbl a n r, alts_nonempty a = true ->
  try_from_ast a = Built n -> core_of_ast a = Some r ->
  forall w, nfa_lang tbl n w <-> mt tbl r w.
Proof. exact thompson_correct. Qed.
Print Assumptions C02_thompson_correct.

(* for AAlt [] the code returns Nfa::new() (accepts the empty word), Spec.core_of_ast says Emp *)
Theorem C02_alt_nil_differs : forall tbl,
  try_from_ast (AAlt []) = Built nfa_new /\ core_of_ast (AAlt []) = Some Emp /\
  nfa_lang tbl nfa_new [] /\ ~ mt tbl Emp [].
Proof. exact alt_nil_differs. Qed.
Print Assumptions C02_alt_nil_differs.

(* the executable epsilon-closure matcher decides the NFA language *)
Theorem C02_nfa_matchb_spec : forall tbl n w, WF n ->
  (nfa_matchb tbl n w = true <-> nfa_lang tbl n w).
Proof. exact nfa_matchb_spec. Qed.
Print Assumptions C02_nfa_matchb_spec.

Theorem C02_built_matchb_spec : forall tbl a n r, alts_nonempty a = true ->
  try_from_ast a = Built n -> core_of_ast a = Some r ->
  forall w, nfa_matchb tbl n w = true <-> mt tbl r w.
Proof. exact built_matchb_spec. Qed.
Print Assumptions C02_built_matchb_spec.
