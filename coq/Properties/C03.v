(* C03 — minimization preserves what is recognised (and C17: the group-id width matters).
   Property theorems only; the model is Minimizer.v (transcription of minimizer.rs), the proofs
   are in MinimizerProofs.v. *)
From Scnr Require Import Base Automaton Minimizer MinimizerProofs.

(* For every class predicate and every automaton A (deterministic or not) that passes the
   well-formedness test and has at most 2^group_bits states: if the minimizer returns B, then B
   and A accept the same token types for every word. *)
Theorem C03_minimize_preserves :
  forall (tbl:N -> N -> bool) (group_bits:nat) (A B:dfa),
  wf_min A = true -> length (trans A) <= 2 ^ group_bits ->
  minimize group_bits A = Some B ->
  forall w t, accepts_tok tbl B w t <-> accepts_tok tbl A w t.
Proof. exact minimize_preserves. Qed.
Print Assumptions C03_minimize_preserves.

(* the same with the width hypothesis in N, so that it can be discharged by vm_compute for
   group_bits = 32 *)
Theorem C03_minimize_preserves_N :
  forall (tbl:N -> N -> bool) (group_bits:nat) (A B:dfa),
  wf_min A = true -> (N.of_nat (length (trans A)) <= 2 ^ N.of_nat group_bits)%N ->
  minimize group_bits A = Some B ->
  forall w t, accepts_tok tbl B w t <-> accepts_tok tbl A w t.
Proof. exact minimize_preserves_N. Qed.
Print Assumptions C03_minimize_preserves_N.

(* The group of A's state 0 is state 0 of B; state_map sends the states of A to states of B, and
   for every word the set of states B is in is the image of the set of states A is in. *)
Theorem C03_first_state_is_start :
  forall (tbl:N -> N -> bool) (group_bits:nat) (A B:dfa),
  wf_min A = true -> length (trans A) <= 2 ^ group_bits ->
  minimize group_bits A = Some B ->
  state_map group_bits A 0 = 0 /\
  (forall q, q < length (trans A) -> state_map group_bits A q < length (trans B)) /\
  forall w p, In p (run tbl B [0] w) <->
              exists q, In q (run tbl A [0] w) /\ state_map group_bits A q = p.
Proof. exact minimize_first_state. Qed.
Print Assumptions C03_first_state_is_start.

(* The result is not larger and its two vectors have the same length (no width hypothesis). *)
Theorem C03_not_larger :
  forall (group_bits:nat) (A B:dfa), minimize group_bits A = Some B ->
  length (trans B) <= length (trans A) /\ length (trans B) = length (fin B).
Proof. exact minimize_not_larger. Qed.
Print Assumptions C03_not_larger.

(* The refinement loop needs at most (number of states + 2) rounds: None is returned exactly for
   automata that fail the well-formedness test. *)
Theorem C03_minimize_total :
  forall (group_bits:nat) (A:dfa), wf_min A = true -> exists B, minimize group_bits A = Some B.
Proof. exact minimize_total. Qed.
Print Assumptions C03_minimize_total.

Theorem C03_minimize_none_iff :
  forall (group_bits:nat) (A:dfa), minimize group_bits A = None <-> wf_min A = false.
Proof. exact minimize_none_iff. Qed.
Print Assumptions C03_minimize_none_iff.

(* Per-instance certificate: for any two automata and any map g between their states, the boolean
   test of the four quotient conditions implies equal acceptance for all words. *)
Theorem C03_quotient_certificate :
  forall (tbl:N -> N -> bool) (A B:dfa) (g:nat -> nat),
  quotient_ok A B g = true ->
  forall w t, accepts_tok tbl B w t <-> accepts_tok tbl A w t.
Proof. exact quotient_ok_sound. Qed.
Print Assumptions C03_quotient_certificate.

(* Non-vacuity: (a|b)c with five states; states 1,2 and states 3,4 are merged. *)
Theorem C03_example_merge :
  wf_min ex_min_A = true /\ minimize 32 ex_min_A = Some ex_min_B
  /\ map (state_map 32 ex_min_A) [0;1;2;3;4] = [0;1;1;2;2]
  /\ quotient_ok ex_min_A ex_min_B (state_map 32 ex_min_A) = true.
Proof. exact ex_min_merge. Qed.
Print Assumptions C03_example_merge.

(* C17: the width hypothesis is needed. With 2-bit group ids the six-state chain for "aaaaa"
   is turned into an automaton that accepts "a" and rejects "aaaaa"; with 32 bits it is
   returned unchanged. *)
Theorem C17_wrap_miscompiles :
  wf_min ex_chain6 = true /\ 2 ^ 2 < length (trans ex_chain6) /\
  exists B, minimize 2 ex_chain6 = Some B
    /\ (accepts_tok ex_min_tbl B [97]%N 0%N /\ ~ accepts_tok ex_min_tbl ex_chain6 [97]%N 0%N)
    /\ (~ accepts_tok ex_min_tbl B [97;97;97;97;97]%N 0%N /\ accepts_tok ex_min_tbl ex_chain6 [97;97;97;97;97]%N 0%N)
    /\ minimize 32 ex_chain6 = Some ex_chain6.
Proof. exact ex_wrap_miscompiles. Qed.
Print Assumptions C17_wrap_miscompiles.

(* ---------- the per-pair certificates (run by vm_compute on every recorded minimizer pair) ---------- *)
From Scnr Require Import Regex EquivCheck.

(* soundness of the automaton equivalence checker: all words, including the empty one; the
   exploration starts from the pair of start states ({0},{0}) *)
Theorem C03_pair_checker_sound :
  forall (tbl:N -> N -> bool) (A B:dfa) (ms:list N) (fuel:nat),
  aut_equiv_check tbl A B ms fuel = true ->
  forall w, Forall (fun c => In c ms) w ->
  forall t, accepts_tok tbl A w t <-> accepts_tok tbl B w t.
Proof. exact (aut_equiv_check_sound (fun _ _ => false)). Qed.
Print Assumptions C03_pair_checker_sound.

Theorem C03_all_strings :
  forall (cls tbl:N -> N -> bool) (f:N -> N) (A B:dfa) (ms:list N) (fuel:nat),
  (forall a c, cls a c = tbl a (f c)) -> (forall c, In (f c) ms) ->
  aut_equiv_check tbl A B ms fuel = true ->
  forall w t, accepts_tok cls A w t <-> accepts_tok cls B w t.
Proof.
  intros cls tbl f A B ms fuel Hc Hms Hchk w t.
  rewrite !(accepts_tok_lift cls tbl f Hc).
  apply (aut_equiv_check_sound (fun _ _ => false) tbl A B ms fuel Hchk).
  apply Forall_forall. intros m Hm. apply in_map_iff in Hm as (c & <- & _). apply Hms.
Qed.
Print Assumptions C03_all_strings.
