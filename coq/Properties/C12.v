(* C12 — scanners and iterators are isolated from each other and from their past (partial:
   in the functional model iterators share nothing by construction; what Rust adds — one clone
   of the ScannerImpl per find_iter, an Arc-shared immutable predicate, no aliasing of &mut —
   is guaranteed by the type system and validated by the correspondence, not proved here). *)
From Scnr Require Import Base Automaton FindFrom FindFromProofs Iter IterRun IterProofs HistoryProofs.

(* the outputs seen on iterator i in any interleaving of operations on any number of iterators
   are those of i's own operations run alone *)
Theorem C12_isolation :
  forall (sc:nat -> scanner) ops w dead i,
  outs_of i (run_world sc w dead ops) = if natmem i dead then [] else run_ops (sc i) (w i) (proj i ops).
Proof. exact world_isolation. Qed.
Print Assumptions C12_isolation.

(* find_from's result does not depend on anything but the automaton and the haystack: it is a
   function (the Rust scratch vectors current_states/next_states are cleared at entry) *)
Theorem C12_find_is_function :
  forall tbl M s1 s2, s1 = s2 -> find_mode tbl M s1 = find_mode tbl M s2.
Proof. intros; subst; reflexivity. Qed.
Print Assumptions C12_find_is_function.

(* a fresh iterator does not depend on the mode set on the Scanner or on earlier inputs *)
Theorem C12_fresh_iterator :
  forall sm1 sm2 input, find_iter sm1 input = find_iter sm2 input.
Proof. reflexivity. Qed.
Print Assumptions C12_fresh_iterator.

(* the tokens after a reset do not depend on the past of the iterator (see C10) *)
Theorem C12_independent_of_past :
  forall sc nmodes, sc_ok sc nmodes -> forall k st1 st2, RInv nmodes st1 -> RInv nmodes st2 ->
  same_cursor st1 st2 -> tokens sc k st1 = tokens sc k st2.
Proof. intros sc nmodes Hsc k st1 st2. apply tokens_same_cursor; exact Hsc. Qed.
Print Assumptions C12_independent_of_past.
