(* C12 — scanners and iterators are isolated from each other and from their past (partial:
   in the functional model iterators share nothing by construction. The state that outlives a
   call inside one iterator — the scratch vectors — is modelled explicitly and proved irrelevant;
   that an iterator owns all its state (one clone of the ScannerImpl per find_iter, an Arc-shared
   immutable predicate) is read off the source on every run (C12_source_premises) and validated
   by the correspondence; that Rust's `&mut` excludes aliasing is the type system's guarantee,
   not proved here). *)
From Scnr Require Import Base Automaton FindFrom FindFromProofs Iter IterRun IterProofs HistoryProofs Scratch Gen.IsolationFacts.

(* the outputs seen on iterator i in any interleaving of operations on any number of iterators
   are those of i's own operations run alone *)
Theorem C12_isolation :
  forall (sc:nat -> scanner) ops w dead i,
  outs_of i (run_world sc w dead ops) = if natmem i dead then [] else run_ops (sc i) (w i) (proj i ops).
Proof. exact world_isolation. Qed.
Print Assumptions C12_isolation.

(* THE SCRATCH VECTORS. find_from with current_states / next_states explicit (Scratch.v, the
   statements of the Rust body in their order): whatever an earlier call, an earlier input or an
   earlier iterator left in them, the result is the function FindFrom.find_from of the automaton
   and the haystack; so is every result of any sequence of calls on one automaton. *)
Theorem C12_scratch_irrelevant :
  forall tbl A la (sc:scratch) s, fst (find_from_st tbl A la true sc s) = find_from tbl A la s.
Proof. exact find_from_st_result. Qed.
Print Assumptions C12_scratch_irrelevant.

Theorem C12_calls_independent :
  forall tbl A la hs sc, calls tbl A la sc hs = map (find_from tbl A la) hs.
Proof. exact calls_independent. Qed.
Print Assumptions C12_calls_independent.

(* ... and the statement is about the clearing at entry: without it, it is false *)
Theorem C12_without_clearing_refuted :
  fst (find_from_st ex_sc_tbl ex_sc_A no_la false ([2], []) [98%N]) = Ok (Some (1%N, 1))
  /\ fst (find_from_st ex_sc_tbl ex_sc_A no_la false ([], []) [98%N]) = Ok None
  /\ fst (find_from_st ex_sc_tbl ex_sc_A no_la true ([2], []) [98%N]) = Ok None.
Proof. exact without_clearing_refuted. Qed.
Print Assumptions C12_without_clearing_refuted.

(* SOURCE PREMISES, regenerated from /repo/scnr/src on every run (lib/c12_facts.py ->
   Gen/IsolationFacts.v): the state an iterator's results depend on is exactly the state of the
   model (fields of Scanner, ScannerImpl, CompiledScannerMode, CompiledDfa, CompiledLookahead,
   FindMatchesImpl; no interior mutability; the only shared parts are the immutable class registry
   and predicate), find_iter hands a CLONE of the ScannerImpl to the iterator, the iterator's
   constructor resets the mode, find_from clears its scratch vectors at entry and ends every round
   with clear + swap. *)
Theorem C12_source_premises : isolation_facts = true.
Proof. exact isolation_facts_ok. Qed.
Print Assumptions C12_source_premises.

(* a fresh iterator does not depend on the mode set on the Scanner or on earlier inputs *)
Theorem C12_fresh_iterator :
  forall sm1 sm2 input, find_iter sm1 input = find_iter sm2 input.
Proof. reflexivity. Qed.
Print Assumptions C12_fresh_iterator.

(* the tokens after a reset do not depend on the past of the iterator (see C10) *)
Theorem C12_independent_of_past :
  forall sc nmodes, sc_ok sc nmodes -> forall k st1 st2, RInv nmodes st1 -> RInv nmodes st2 ->
  same_cursor st1 st2 -> tokens sc k st1 = tokens sc k st2.
Proof. intros sc nmodes Hsc k st1 st2. apply tokens_same_cursor; exact Hsc. Qed.
Print Assumptions C12_independent_of_past.
