(* C14 — building through the shared cache from any number of threads (protocol theorem).
   Property theorems only; definitions are in Cache.v, proofs in CacheProofs.v.

   `threads : list (list config)` gives every thread the configurations it builds, in program
   order; a schedule `sched : list nat` names the thread that performs the next build step;
   `interleaving sched threads` holds when the schedule performs every step of every thread
   exactly once and in program order; `run_schedule` executes the steps on ONE shared cache.

   PREMISE, READ FROM THE SOURCE AND NOT PROVED: a build is one atomic step on the cache, because
   `build` takes the exclusive lock in the same expression as `.get(..)` (Gen/CacheLockFacts.v,
   regenerated on every run: `cache_facts_ok`).  OUTSIDE THE MODEL, OBSERVED BY THE STRESS RUN
   ONLY: data races on the unsafe `Arc::as_ptr` dereference, lock poisoning, deadlocks, torn
   reads, and everything about scanning with shared scanners.  `Scanner: Send + Sync` is a
   compile-time assertion of the harness. *)
From Scnr Require Import Base Json Cache CacheProofs.
From Scnr Require Import Gen.CacheFacts Gen.CacheLockFacts.
Local Open Scope N_scope.

(* Every interleaving of the atomic build steps gives every thread the results of its own builds
   made sequentially without any cache. *)
Theorem C14_any_schedule :
  forall (compiled:Type) (compile:config -> option compiled)
         (threads:list (list config)) (sched:list nat),
  interleaving sched threads ->
  results_per_thread (List.length threads) (snd (run_schedule compiled compile [] sched threads))
  = map (map compile) threads.
Proof. exact any_schedule. Qed.
Print Assumptions C14_any_schedule.

(* The shared cache the threads leave behind satisfies the C13 invariant, so the statement
   composes with whatever is built afterwards. *)
Theorem C14_cache_invariant_kept :
  forall (compiled:Type) (compile:config -> option compiled)
         (threads:list (list config)) (sched:list nat),
  interleaving sched threads ->
  cache_ok compiled compile (fst (run_schedule compiled compile [] sched threads)).
Proof. exact any_schedule_cache_ok. Qed.
Print Assumptions C14_cache_invariant_kept.

(* Non-vacuity: interleavings exist for every set of threads ... *)
Theorem C14_interleavings_exist :
  forall threads:list (list config), interleaving (serial_from 0 threads) threads.
Proof. exact serial_is_interleaving. Qed.
Print Assumptions C14_interleavings_exist.

(* ... and a genuinely interleaved one (thread 1 steps between the steps of thread 0, a failing
   build between successful ones, hits and misses), with its results. *)
Example C14_nonvacuous : interleaving ex_sched ex_threads.
Proof. exact example_interleaving. Qed.
Print Assumptions C14_nonvacuous.

Example C14_example_results :
  results_per_thread 2 (snd (run_schedule N ex_compile [] ex_sched ex_threads))
  = [[Some 7; None; Some 7]; [Some 8; Some 7]].
Proof. exact example_schedule_results. Qed.
Print Assumptions C14_example_results.

Example C14_not_every_list_is_an_interleaving : ~ interleaving [0; 0; 0; 0]%nat ex_threads.
Proof. exact example_not_interleaving. Qed.
Print Assumptions C14_not_every_list_is_an_interleaving.

(* Premises read from the current source text (regenerated on every run): key facts of C13 and
   the lock facts (atomicity of a build step). *)
Theorem C14_source_premises : all_facts = true.
Proof. exact cache_facts_ok. Qed.
Print Assumptions C14_source_premises.
