(* C09 — line and column of a token are those of its start offset.

   For every token delivered with positions, the start position is the true 1-based line (one
   plus the number of '\n' before the token's start) and 1-based byte column within that line,
   also after the iterator was reset to an earlier offset any number of times and after it was
   exhausted; the end position is the position of the end offset, where for a token ending in a
   line break both the column after that line break and (line+1, 1) are acceptable.
   position(o) for any already scanned offset o follows the same rule.

   The proofs are in LinesProofs.v. F below is a ghost value, the frontier: the furthest cursor
   position (apos) the iterator has reached so far. "Already scanned" means "not beyond F". *)
From Scnr Require Import Base Automaton FindFrom Iter IterRun IterProofs HistoryProofs LinesProofs.

(* ---------- the specification is what it claims to be ---------- *)
(* pos_spec input o = (number of true line starts <= o, o - greatest true line start <= o + 1),
   the true line starts being 0 and every offset just behind a '\n' *)
Theorem C09_spec_unfold :
  forall input o, pos_spec input o = (cnt_le o (starts input), o - line_start_of input o + 1).
Proof. reflexivity. Qed.
Print Assumptions C09_spec_unfold.

Theorem C09_spec_line_start :
  forall input x, is_start input x <-> x = 0 \/ exists a b, input = a ++ NL :: b /\ x = blen (a ++ [NL]).
Proof. exact is_start_spec. Qed.
Print Assumptions C09_spec_line_start.

(* the line is one plus the number of '\n' characters that end at or before o *)
Theorem C09_spec_line :
  forall input o, fst (pos_spec input o) = 1 + nl_ending_by 0 input o.
Proof. intros input o. apply cnt_le_starts. Qed.
Print Assumptions C09_spec_line.

(* for an offset on a character boundary: one plus the number of '\n' in the prefix before it *)
Theorem C09_spec_line_of_boundary :
  forall a b, fst (pos_spec (a ++ b) (blen a)) = 1 + count_occ N.eq_dec a NL.
Proof. exact line_of_boundary. Qed.
Print Assumptions C09_spec_line_of_boundary.

(* the column counts bytes from the greatest true line start that is not behind o *)
Theorem C09_spec_column :
  forall input o, snd (pos_spec input o) = o - line_start_of input o + 1 /\
    is_start input (line_start_of input o) /\ line_start_of input o <= o /\
    forall x, is_start input x -> x <= o -> x <= line_start_of input o.
Proof. intros input o. split; [reflexivity|apply line_start_of_spec]. Qed.
Print Assumptions C09_spec_column.

(* the lenient answer for an offset b just behind a line break: the line of the break and the
   column behind it *)
Theorem C09_spec_after_break :
  forall input b, pos_after_break input b = (fst (pos_spec input (b - 1)), b - line_start_of input (b - 1) + 1).
Proof. reflexivity. Qed.
Print Assumptions C09_spec_after_break.

(* ---------- the invariant ---------- *)
Theorem C09_invariant_init :
  forall nmodes sm input, 0 < nmodes -> LInv nmodes (find_iter sm input) 0.
Proof. exact LInv_init. Qed.
Print Assumptions C09_invariant_init.

Theorem C09_invariant_step :
  forall sc nmodes, sc_ok sc nmodes ->
  forall st F o st' out, LInv nmodes st F -> op_valid_scanned nmodes F (it_input st) o ->
  step_op sc st o = Some (st', out) ->
  LInv nmodes st' (Nat.max F (apos st')).
Proof. exact LInv_step. Qed.
Print Assumptions C09_invariant_step.

Theorem C09_invariant_history :
  forall sc nmodes, sc_ok sc nmodes ->
  forall ops st F st' outs, LInv nmodes st F -> history_scanned sc nmodes st F ops ->
  run_history sc st ops = Some (st', outs) ->
  LInv nmodes st' (frontier_after sc st F ops) /\ it_input st' = it_input st.
Proof. exact LInv_history. Qed.
Print Assumptions C09_invariant_history.

(* such histories never panic *)
Theorem C09_history_total :
  forall sc nmodes, sc_ok sc nmodes ->
  forall ops st F, LInv nmodes st F -> history_scanned sc nmodes st F ops ->
  exists st' outs, run_history sc st ops = Some (st', outs).
Proof. exact history_scanned_total. Qed.
Print Assumptions C09_history_total.

(* the bookkeeping part needs nothing from the scanner *)
Theorem C09_bookkeeping_step :
  forall sc st o st' out F, BInv st F ->
  match o with OSetOffset off => Nat.min off (blen (it_input st)) <= F | _ => True end ->
  step_op sc st o = Some (st', out) ->
  BInv st' (Nat.max F (apos st')) /\ it_input st' = it_input st.
Proof. exact B_step_op. Qed.
Print Assumptions C09_bookkeeping_step.

(* ---------- position(o) for scanned offsets ---------- *)
Theorem C09_position_of_scanned_offset :
  forall sc nmodes, sc_ok sc nmodes -> forall sm input, 0 < nmodes ->
  forall ops st outs,
  history_scanned sc nmodes (find_iter sm input) 0 ops ->
  run_history sc (find_iter sm input) ops = Some (st, outs) ->
  forall o,
  o < frontier_after sc (find_iter sm input) 0 ops \/
  (o <= frontier_after sc (find_iter sm input) 0 ops /\ ~ is_start input o) ->
  position st o = Ok (pos_spec input o).
Proof. exact reach_position_of_scanned_offset. Qed.
Print Assumptions C09_position_of_scanned_offset.

(* also at the frontier when the line start there is recorded *)
Theorem C09_position_of_recorded_offset :
  forall sc nmodes, sc_ok sc nmodes -> forall sm input, 0 < nmodes ->
  forall ops st outs,
  history_scanned sc nmodes (find_iter sm input) 0 ops ->
  run_history sc (find_iter sm input) ops = Some (st, outs) ->
  forall o, o <= frontier_after sc (find_iter sm input) 0 ops ->
  (is_start input o -> In o (it_lines st)) ->
  position st o = Ok (pos_spec input o).
Proof. exact reach_position_recorded. Qed.
Print Assumptions C09_position_of_recorded_offset.

Theorem C09_position_at_unrecorded_frontier :
  forall sc nmodes, sc_ok sc nmodes -> forall sm input, 0 < nmodes ->
  forall ops st outs,
  history_scanned sc nmodes (find_iter sm input) 0 ops ->
  run_history sc (find_iter sm input) ops = Some (st, outs) ->
  is_start input (frontier_after sc (find_iter sm input) 0 ops) ->
  ~ In (frontier_after sc (find_iter sm input) 0 ops) (it_lines st) ->
  position st (frontier_after sc (find_iter sm input) 0 ops) =
  Ok (pos_after_break input (frontier_after sc (find_iter sm input) 0 ops)).
Proof. exact reach_position_at_unrecorded_frontier. Qed.
Print Assumptions C09_position_at_unrecorded_frontier.

(* on any state satisfying the invariant: one of the two answers at every scanned offset *)
Theorem C09_position_cases :
  forall sc nmodes, sc_ok sc nmodes ->
  forall st F o, LInv nmodes st F -> o <= F ->
  position st o = Ok (pos_spec (it_input st) o) \/
  (o = F /\ is_start (it_input st) o /\ ~ In o (it_lines st) /\
   position st o = Ok (pos_after_break (it_input st) o)).
Proof. intros sc nmodes _. exact (LInv_position_cases nmodes). Qed.
Print Assumptions C09_position_cases.

(* ---------- tokens ---------- *)
Theorem C09_match_positions :
  forall sc nmodes, sc_ok sc nmodes -> forall sm input, 0 < nmodes ->
  forall ops st outs,
  history_scanned sc nmodes (find_iter sm input) 0 ops ->
  run_history sc (find_iter sm input) ops = Some (st, outs) ->
  forall st' t a b, next_match sc st = Ok (st', Some (t, a, b)) ->
  position st' a = Ok (pos_spec input a) /\
  (position st' b = Ok (pos_spec input b) \/
   (is_start input b /\ position st' b = Ok (pos_after_break input b))).
Proof. exact reach_match_positions. Qed.
Print Assumptions C09_match_positions.

(* the same on the encoded output of WithPositions::next *)
Theorem C09_next_pos_output :
  forall sc nmodes, sc_ok sc nmodes -> forall sm input, 0 < nmodes ->
  forall ops st outs,
  history_scanned sc nmodes (find_iter sm input) 0 ops ->
  run_history sc (find_iter sm input) ops = Some (st, outs) ->
  forall st' t s e l1 c1 l2 c2,
  step_op sc st ONextPos =
    Some (st', 1%N :: enc_tok (t, s, e) ++ [N.of_nat l1; N.of_nat c1; N.of_nat l2; N.of_nat c2]) ->
  (l1, c1) = pos_spec input s /\
  ((l2, c2) = pos_spec input e \/ (is_start input e /\ (l2, c2) = pos_after_break input e)).
Proof. exact reach_next_pos_output. Qed.
Print Assumptions C09_next_pos_output.

(* after next returned None every offset of the input has its exact position (the line start
   behind a trailing '\n' is recorded by the exhaustion step) *)
Theorem C09_exhausted_positions :
  forall sc nmodes, sc_ok sc nmodes -> forall sm input, 0 < nmodes ->
  forall ops st outs,
  history_scanned sc nmodes (find_iter sm input) 0 ops ->
  run_history sc (find_iter sm input) ops = Some (st, outs) ->
  forall st' o, next_match sc st = Ok (st', None) -> o <= blen input ->
  position st' o = Ok (pos_spec input o).
Proof. exact reach_exhausted_positions. Qed.
Print Assumptions C09_exhausted_positions.

(* ---------- non-vacuity: a concrete scanner, input and history ---------- *)
(* one mode; "a\n" is token 2, "a" token 1, "\n" token 0, "ä" (U+00E4, two bytes) token 3;
   every other character is unmatched and skipped *)
Definition ex_find (m:nat) (s:list N) : res (option (N * nat)) :=
  Ok (match s with
      | c :: s' =>
          if N.eqb c 97 then
            match s' with d :: _ => if N.eqb d 10 then Some (2%N, 2) else Some (1%N, 1) | [] => Some (1%N, 1) end
          else if N.eqb c 10 then Some (0%N, 1)
          else if N.eqb c 228 then Some (3%N, 2)
          else None
      | [] => None
      end).
Definition ex_sc : scanner := {| sc_find := ex_find; sc_trans := fun _ => Ok [] |}.

Lemma ex_sc_ok : sc_ok ex_sc 1.
Proof.
  unfold sc_ok. split; [|split].
  - intros m s _. cbn [sc_find ex_sc]. unfold ex_find. discriminate.
  - intros m s t e H. cbn [sc_find ex_sc] in H. unfold ex_find in H.
    destruct s as [|c s']; [discriminate|].
    destruct (N.eqb c 97) eqn:E1.
    + apply N.eqb_eq in E1. subst c. destruct s' as [|d s''].
      * inversion H; subst. split; [lia|]. exists []. exact (drop_bytes_cons 97 []).
      * destruct (N.eqb d 10) eqn:E2.
        -- apply N.eqb_eq in E2. subst d. inversion H; subst. split; [lia|]. exists s''.
           exact (drop_bytes_add (len_utf8 97) (len_utf8 10) _ _ _ (drop_bytes_cons 97 _) (drop_bytes_cons 10 _)).
        -- inversion H; subst. split; [lia|]. exists (d :: s''). exact (drop_bytes_cons 97 _).
    + destruct (N.eqb c 10) eqn:E2.
      * apply N.eqb_eq in E2. subst c. inversion H; subst. split; [lia|]. exists s'. exact (drop_bytes_cons 10 _).
      * destruct (N.eqb c 228) eqn:E3; [|discriminate].
        apply N.eqb_eq in E3. subst c. inversion H; subst. split; [lia|]. exists s'. exact (drop_bytes_cons 228 _).
  - intros m _. exists []. split; [reflexivity|]. intros t m' H. discriminate.
Qed.

(* "a\n\näx\na\n": an empty line, a two-byte character, an unmatched character, a trailing
   newline. Bytes: a 0, \n 1, \n 2, ä 3-4, x 5, \n 6, a 7, \n 8; length 9 *)
Definition ex_input : list N := [97;10;10;228;120;10;97;10]%N.

Example C09_ex_starts : starts ex_input = [0; 2; 3; 7; 9].
Proof. vm_compute. reflexivity. Qed.
Example C09_ex_spec : map (pos_spec ex_input) (seq 0 10) =
  [(1,1); (1,2); (2,1); (3,1); (3,2); (3,3); (3,4); (4,1); (4,2); (5,1)].
Proof. vm_compute. reflexivity. Qed.

(* next, position queries, a reset to a scanned offset, next up to the exhaustion, a reset to
   the start, next again *)
Definition ex_ops : list op :=
  [ONextPos; OPosition 2; ONextPos; OPosition 2; OPosition 3; ONextPos; ONextPos;
   OSetOffset 2; OPosition 7; ONextPos; ONextPos; ONextPos; ONextPos; ONextPos; OPosition 9;
   OSetOffset 0; ONextPos; OPosition 9; OPosition 4].

Example C09_ex_run : run_ops ex_sc (find_iter 0 ex_input) ex_ops =
  [ [1; 2; 0; 2;  1; 1;  1; 3];     (* "a\n" 0..2: (1,1) .. behind the break on line 1 *)
    [1; 3];                         (* position 2, frontier, not recorded: behind the break *)
    [1; 0; 2; 3;  2; 1;  2; 2];     (* "\n" 2..3: the empty line 2 *)
    [2; 1];                         (* position 2 now recorded: exact *)
    [2; 2];                         (* position 3: frontier again *)
    [1; 3; 3; 5;  3; 1;  3; 3];     (* "ä" 3..5: byte columns *)
    [1; 0; 6; 7;  3; 4;  3; 5];     (* x skipped; "\n" 6..7 *)
    [];                             (* set_offset 2 *)
    [3; 5];                         (* position 7: still the unrecorded frontier *)
    [1; 0; 2; 3;  2; 1;  3; 1];     (* "\n" 2..3 again: the end is now exact (3,1) *)
    [1; 3; 3; 5;  3; 1;  3; 3];
    [1; 0; 6; 7;  3; 4;  3; 5];
    [1; 2; 7; 9;  4; 1;  4; 3];     (* "a\n" 7..9 *)
    [0];                            (* exhausted *)
    [5; 1];                         (* the line start behind the trailing newline is recorded *)
    [];                             (* set_offset 0 *)
    [1; 2; 0; 2;  1; 1;  2; 1];
    [5; 1];
    [3; 2] ]%N.                     (* inside the two-byte character *)
Proof. vm_compute. reflexivity. Qed.

Example C09_ex_history_scanned : history_scanned ex_sc 1 (find_iter 0 ex_input) 0 ex_ops.
Proof.
  vm_compute.
  repeat match goal with
         | |- _ /\ _ => split
         | |- True => exact I
         | |- exists _, _ => eexists; reflexivity
         | |- _ <= _ => lia
         end.
Qed.

Example C09_ex_frontier : frontier_after ex_sc (find_iter 0 ex_input) 0 ex_ops = 9.
Proof. vm_compute. reflexivity. Qed.

(* the general theorem applies to this history: its hypotheses are satisfiable *)
Example C09_ex_applies :
  exists st outs, run_history ex_sc (find_iter 0 ex_input) ex_ops = Some (st, outs) /\
    forall o, o < 9 -> position st o = Ok (pos_spec ex_input o).
Proof.
  destruct (C09_history_total ex_sc 1 ex_sc_ok ex_ops (find_iter 0 ex_input) 0
              (C09_invariant_init 1 0 ex_input Nat.lt_0_1) C09_ex_history_scanned) as (st & outs & E).
  exists st, outs. split; [exact E|]. intros o Ho.
  apply (C09_position_of_scanned_offset ex_sc 1 ex_sc_ok 0 ex_input Nat.lt_0_1 ex_ops st outs
           C09_ex_history_scanned E).
  left. rewrite C09_ex_frontier. exact Ho.
Qed.

(* why resets must go to scanned offsets: a set_offset beyond the frontier skips the line
   breaks in between; the token "a" at offset 2 of "\n\na" is reported on line 2, not 3 *)
Example C09_ex_forward_reset :
  run_ops ex_sc (find_iter 0 [10;10;97]%N) [OSetOffset 2; ONextPos] = [ []; [1; 1; 2; 3;  2; 1;  2; 2] ]%N
  /\ pos_spec [10;10;97]%N 2 = (3, 1).
Proof. vm_compute. split; reflexivity. Qed.
Print Assumptions C09_ex_applies.
