(* C01 (capstone) — compiled scanner = specification, end to end and for every history. *)
From Scnr Require Import Base Regex Automaton FindFrom Spec SpecRun Iter IterRun Nfa Compile CompileProofs
     SpecProofs ExtProofs EndToEnd.

(* every automaton the pipeline produces lists all its accepting token types in terminal_ids *)
Theorem C01_built_mode_ok : forall m cm, build_mode m = Some cm -> mode_ok (aut cm).
Proof. exact build_mode_ok. Qed.
Print Assumptions C01_built_mode_ok.

(* ONE MODE. A mode built from source patterns by the model of the implementation's pipeline
   (Nfa::try_from_ast, MultiPatternNfa, From<MultiPatternNfa> for CompiledDfa, Minimizer::minimize;
   lookaheads by Nfa::try_from_ast, From<Nfa>, minimize) finds, at every position of every
   haystack, exactly the token the executable specification selects from the patterns' regular
   expressions: maximal extent (match end + lookahead length), then the pattern listed first,
   then the shortest match end. Conditions: distinct token types in the mode (D8), no empty
   alternation, automaton sizes below 2^32 (StateGroupIDBase). That every accepting token type is
   listed in terminal_ids (so that priority_of never unwraps None) is proved for every built mode
   (build_mode_ok), not assumed. *)
Theorem C01_compiled_mode_finds_specified_token :
  forall (tbl:N -> N -> bool) (m:src_mode) (cm:cmode) (sm:smode),
  build_mode m = Some cm -> spec_mode m = Some sm -> mode_valid m ->
  forall s, find_mode tbl (aut cm) s = Ok (best_cand tbl (sm_pats sm) s).
Proof. exact compiled_find_is_specification. Qed.
Print Assumptions C01_compiled_mode_finds_specified_token.

(* THE WHOLE SCANNER, EVERY HISTORY. next, peek, advance_to, set_offset, mode switches and the
   position queries, in any order and from any iterator state, give the same outputs with the
   compiled automata as with the specification. *)
Theorem C01_compiled_scanner_is_specification :
  forall (tbl:N -> N -> bool) (l:list src_mode) (cms:list cmode) (sms:list smode),
  build_scanner l = Some cms -> spec_of_scanner l = Some sms ->
  (forall m, In m l -> mode_valid m) ->
  forall ops st, run_ops (impl_scanner tbl cms) st ops = run_ops (spec_scanner tbl sms) st ops.
Proof. exact compiled_scanner_is_specification. Qed.
Print Assumptions C01_compiled_scanner_is_specification.

(* terminal_ids of a compiled mode = the token types in pattern order (the priority order) *)
Theorem C01_terminal_ids_are_pattern_order :
  forall pats A, compile_mode pats = Compiled A -> tids A = map fst pats.
Proof. exact compile_mode_tids_eq. Qed.
Print Assumptions C01_terminal_ids_are_pattern_order.

(* non-vacuity: a two-mode source scanner with a negative and a positive lookahead is valid,
   builds, and passes the boolean check *)
Theorem C01_capstone_nonvacuous :
  (forall m, In m ex_src -> mode_valid m) /\
  exists cms sms, build_scanner ex_src = Some cms /\ spec_of_scanner ex_src = Some sms
    /\ forallb (fun cm => mode_okb (aut cm)) cms = true /\ length cms = 2.
Proof. exact (conj ex_src_valid ex_src_builds). Qed.
Print Assumptions C01_capstone_nonvacuous.

(* the hypotheses of the capstone as one boolean evaluated on each explored configuration (the
   generated case files print capstone_check of the parsed configuration; the driver compares the
   printed automata with the ones the implementation compiled) *)
Theorem C01_capstone_check_sound :
  forall l e, capstone_check l = Some e ->
  exists cms sms, build_scanner l = Some cms /\ spec_of_scanner l = Some sms /\ e = map enc_cmode cms /\
    forall tbl ops st, run_ops (impl_scanner tbl cms) st ops = run_ops (spec_scanner tbl sms) st ops.
Proof. exact capstone_check_sound. Qed.
Print Assumptions C01_capstone_check_sound.

(* THE RULE, END TO END AND AT THE SOURCE LEVEL (C01, C04, C05 in one statement): see
   EndToEnd2.built_mode_rule. SCand leaf ps s x i t e = "pattern number i (token type t) matches a
   non-empty prefix of s ending at byte e in full, its lookahead condition holds on the rest with
   lookahead length l, and x = e + l". *)
From Scnr Require Import EndToEnd2.
Theorem C01_source_rule :
  forall tbl m cm sm, build_mode m = Some cm -> spec_mode m = Some sm -> mode_valid m -> forall s,
  match find_mode tbl (aut cm) s with
  | Panic => False
  | Ok None => forall x i t e, ~ SCand tbl (sm_pats sm) s x i t e
  | Ok (Some (t, e)) => exists x i, SCand tbl (sm_pats sm) s x i t e /\
      forall x' i' t' e', SCand tbl (sm_pats sm) s x' i' t' e' -> x' < x \/ (x' = x /\ i <= i')
  end.
Proof. exact built_mode_rule. Qed.
Print Assumptions C01_source_rule.

Theorem C01_specification_patterns_are_the_source_patterns :
  forall m sm, spec_mode m = Some sm ->
  Forall2 (fun p sp => sp_tok sp = s_tok p /\ core_of_ast (s_ast p) = Some (sp_re sp) /\
             match s_la p with
             | None => sp_la sp = None
             | Some (pos, al) => exists rl, core_of_ast al = Some rl /\ sp_la sp = Some (pos, rl)
             end) (s_pats m) (sm_pats sm).
Proof. exact spec_mode_patterns. Qed.
Print Assumptions C01_specification_patterns_are_the_source_patterns.

(* FROM THE PARSER'S LEAVES TO THE TOKENS. `occ` are the leaves (literals, dot, classes) the parser
   produced, in registration order, with their denotations `den` (C08); the configuration `l0` refers
   to them by occurrence number. The registry assigns class ids (any equality `eqc` that is sound for
   the denotation; the implementation's is compared on every run), the patterns are relabelled by
   class ids, compiled by the pipeline model and driven by the iterator model with the registry's
   match function. For every history and every iterator state the outputs are those of the
   specification-driven iterator over the ORIGINAL patterns with the leaves' own denotations. *)
From Scnr Require Import Registry SpecExt FromSource.
Theorem C01_scanner_from_source_is_specification :
  forall (L:Type) (eqc:L -> L -> bool) (den:L -> N -> bool),
  (forall a b, eqc a b = true -> forall c, den a c = den b c) ->
  forall occ ids reg, assign L eqc [] occ = (ids, reg) ->
  forall l0, (forall m, In m l0 -> forall p, In p (s_pats m) -> pat_leaves_ok L occ p) ->
  forall sms0, spec_of_scanner l0 = Some sms0 ->
  forall cms, build_scanner (map (relabel_mode (id_of ids)) l0) = Some cms ->
  (forall m, In m (map (relabel_mode (id_of ids)) l0) -> mode_valid m) ->
  forall ops st,
  run_ops (impl_scanner (tbl_of L den reg) cms) st ops = run_ops (spec_scanner (den_occ L den occ) sms0) st ops.
Proof. exact scanner_from_source_is_specification. Qed.
Print Assumptions C01_scanner_from_source_is_specification.

(* the specification depends on leaf predicate and regular expressions only through the languages *)
Theorem C01_specification_is_semantic :
  forall tbl1 tbl2 ms1 ms2, Forall2 (modeeq tbl1 tbl2) ms1 ms2 ->
  forall ops st, run_ops (spec_scanner tbl1 ms1) st ops = run_ops (spec_scanner tbl2 ms2) st ops.
Proof. exact spec_scanner_ext. Qed.
Print Assumptions C01_specification_is_semantic.

(* non-vacuity of the top theorem's hypotheses on a concrete configuration with a shared leaf
   (a, b, a, b registered as two classes) and a positive lookahead *)
Theorem C01_from_source_nonvacuous :
  (forall a b, N.eqb a b = true -> forall c, N.eqb a c = N.eqb b c)
  /\ assign N N.eqb [] ex_occ = ([0; 1; 0; 1], [97; 98]%N)
  /\ (forall m, In m ex_l0 -> forall p, In p (s_pats m) -> pat_leaves_ok N ex_occ p)
  /\ (exists sms0, spec_of_scanner ex_l0 = Some sms0)
  /\ (exists cms, build_scanner (map (relabel_mode (id_of [0; 1; 0; 1])) ex_l0) = Some cms)
  /\ (forall m, In m (map (relabel_mode (id_of [0; 1; 0; 1])) ex_l0) -> mode_valid m).
Proof. exact ex_from_source. Qed.
Print Assumptions C01_from_source_nonvacuous.
