(* C01 (capstone) — compiled scanner = specification, end to end and for every history. *)
From Scnr Require Import Base Regex Automaton FindFrom Spec SpecRun Iter IterRun Nfa Compile CompileProofs
     SpecProofs ExtProofs EndToEnd.

(* every automaton the pipeline produces lists all its accepting token types in terminal_ids *)
Theorem C01_built_mode_ok : forall m cm, build_mode m = Some cm -> mode_ok (aut cm).
Proof. exact build_mode_ok. Qed.
Print Assumptions C01_built_mode_ok.

(* ONE MODE. A mode built from source patterns by the model of the implementation's pipeline
   (Nfa::try_from_ast, MultiPatternNfa, From<MultiPatternNfa> for CompiledDfa, Minimizer::minimize;
   lookaheads by Nfa::try_from_ast, From<Nfa>, minimize) finds, at every position of every
   haystack, exactly the token the executable specification selects from the patterns' regular
   expressions: maximal extent (match end + lookahead length), then the pattern listed first,
   then the shortest match end. Conditions: distinct token types in the mode (D8), no empty
   alternation, automaton sizes below 2^32 (StateGroupIDBase). That every accepting token type is
   listed in terminal_ids (so that priority_of never unwraps None) is proved for every built mode
   (build_mode_ok), not assumed. *)
Theorem C01_compiled_mode_finds_specified_token :
  forall (tbl:N -> N -> bool) (m:src_mode) (cm:cmode) (sm:smode),
  build_mode m = Some cm -> spec_mode m = Some sm -> mode_valid m ->
  forall s, find_mode tbl (aut cm) s = Ok (best_cand tbl (sm_pats sm) s).
Proof. exact compiled_find_is_specification. Qed.
Print Assumptions C01_compiled_mode_finds_specified_token.

(* THE WHOLE SCANNER, EVERY HISTORY. next, peek, advance_to, set_offset, mode switches and the
   position queries, in any order and from any iterator state, give the same outputs with the
   compiled automata as with the specification. *)
Theorem C01_compiled_scanner_is_specification :
  forall (tbl:N -> N -> bool) (l:list src_mode) (cms:list cmode) (sms:list smode),
  build_scanner l = Some cms -> spec_of_scanner l = Some sms ->
  (forall m, In m l -> mode_valid m) ->
  forall ops st, run_ops (impl_scanner tbl cms) st ops = run_ops (spec_scanner tbl sms) st ops.
Proof. exact compiled_scanner_is_specification. Qed.
Print Assumptions C01_compiled_scanner_is_specification.

(* terminal_ids of a compiled mode = the token types in pattern order (the priority order) *)
Theorem C01_terminal_ids_are_pattern_order :
  forall pats A, compile_mode pats = Compiled A -> tids A = map fst pats.
Proof. exact compile_mode_tids_eq. Qed.
Print Assumptions C01_terminal_ids_are_pattern_order.

(* non-vacuity: a two-mode source scanner with a negative and a positive lookahead is valid,
   builds, and passes the boolean check *)
Theorem C01_capstone_nonvacuous :
  (forall m, In m ex_src -> mode_valid m) /\
  exists cms sms, build_scanner ex_src = Some cms /\ spec_of_scanner ex_src = Some sms
    /\ forallb (fun cm => mode_okb (aut cm)) cms = true /\ length cms = 2.
Proof. exact (conj ex_src_valid ex_src_builds). Qed.
Print Assumptions C01_capstone_nonvacuous.

(* the hypotheses of the capstone as one boolean evaluated on each explored configuration (the
   generated case files print capstone_check of the parsed configuration; the driver compares the
   printed automata with the ones the implementation compiled) *)
Theorem C01_capstone_check_sound :
  forall l e, capstone_check l = Some e ->
  exists cms sms, build_scanner l = Some cms /\ spec_of_scanner l = Some sms /\ e = map enc_cmode cms /\
    forall tbl ops st, run_ops (impl_scanner tbl cms) st ops = run_ops (spec_scanner tbl sms) st ops.
Proof. exact capstone_check_sound. Qed.
Print Assumptions C01_capstone_check_sound.
