(* C11 — peek_n previews the coming tokens without side effects. *)
From Scnr Require Import Base Automaton FindFrom Iter IterRun IterProofs IterInst HistoryProofs.

(* peek_n(n) computes exactly what n calls of next would return from this state, cut after the
   first token that has a transition in the current mode (that token is included and the
   target mode reported, not entered), or when next returns None (end of input) *)
Theorem C11_peek_is_iterated_next :
  forall sc nmodes, sc_ok sc nmodes -> forall n st, RInv nmodes st ->
  peek_loop sc n st (it_rest st) (it_rel st) [] = peek_spec sc n st [].
Proof. intros sc nmodes Hsc n st HI. apply (peek_loop_is_iterated_next sc nmodes Hsc n st [] HI). Qed.
Print Assumptions C11_peek_is_iterated_next.

(* the classification of the outcome *)
Theorem C11_classification :
  forall sc st n, peek_n sc st n =
    match peek_loop sc n st (it_rest st) (it_rel st) [] with
    | Panic => Panic
    | Ok (ms, Some m) => Ok (PModeSwitch ms m)
    | Ok (ms, None) => if length ms =? n then Ok (PMatches ms)
                       else match ms with [] => Ok PNotFound | _ => Ok (PReachedEnd ms) end
    end.
Proof. reflexivity. Qed.
Print Assumptions C11_classification.

(* peek_n never panics on a reachable state *)
Theorem C11_peek_total :
  forall sc nmodes, sc_ok sc nmodes -> forall n st, RInv nmodes st -> exists r, peek_n sc st n = Ok r.
Proof.
  intros sc nmodes Hsc n st HI. rewrite C11_classification, (C11_peek_is_iterated_next sc nmodes Hsc n st HI).
  destruct (peek_spec_total sc nmodes Hsc n st [] HI) as ([ms [m|]] & E); rewrite E; [eauto|].
  destruct (length ms =? n); [eauto|]. destruct ms; eauto.
Qed.
Print Assumptions C11_peek_total.

(* it changes neither the scan position, nor the current mode, nor the outcome of any later
   call: the state after peek_n IS the state before (the scratch vectors of the compiled
   automaton, which the Rust peek_from mutates, are cleared by find_from before every use and
   are not part of the model state) *)
Theorem C11_peek_pure :
  forall sc st n st' out ops, step_op sc st (OPeek n) = Some (st', out) ->
  st' = st /\ run_ops sc st' ops = run_ops sc st ops.
Proof.
  intros sc st n st' out ops H. cbn in H.
  destruct (peek_n sc st n) as [[ms|ms|ms m|]|]; inversion H; subst; split; reflexivity.
Qed.
Print Assumptions C11_peek_pure.
