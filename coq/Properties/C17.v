(* C17 — large automata compile correctly or not at all.
   Property theorems only. The id widths and the list of integer conversions come from
   Gen/Ids.v, which lib/prop_c17.py regenerates from /repo/scnr/src on every check; the model of
   the minimizer is Minimizer.v (the conversion `as StateGroupIDBase` is `mod 2^group_bits`);
   proofs are in MinimizerProofs.v and C17Proofs.v. *)
From Scnr Require Import Base Automaton Minimizer MinimizerProofs.
From Scnr Require Import Gen.Ids C17Proofs.

(* Obligations on the current source text. They stop compiling when an id type is narrowed or an
   integer conversion is added, removed or changed. *)
Theorem C17_group_width_ok : state_id_bits <= group_id_bits.
Proof. exact group_width_ok. Qed.
Print Assumptions C17_group_width_ok.

Theorem C17_state_width_resource : 32 <= state_id_bits.
Proof. exact state_width_resource. Qed.
Print Assumptions C17_state_width_resource.

Theorem C17_ids_fit_usize :
  state_id_bits <= 64 /\ char_class_id_bits <= 64 /\ terminal_id_bits <= 64 /\ group_id_bits <= 64.
Proof. exact ids_fit_usize. Qed.
Print Assumptions C17_ids_fit_usize.

Theorem C17_casts_ok : casts_modelled = true.
Proof. exact casts_ok. Qed.
Print Assumptions C17_casts_ok.

(* For every class predicate and every automaton A that passes the well-formedness test and whose
   number of states fits the state id type: if the minimizer (at the group-id width of the
   source) returns B, then B and A accept the same token types for every word — however large A
   is. *)
Theorem C17_size_independent :
  forall (tbl:N -> N -> bool) (A B:dfa),
  wf_min A = true -> (N.of_nat (length (trans A)) < 2 ^ N.of_nat state_id_bits)%N ->
  minimize group_id_bits A = Some B ->
  forall w t, accepts_tok tbl B w t <-> accepts_tok tbl A w t.
Proof. exact size_independent. Qed.
Print Assumptions C17_size_independent.

Theorem C17_minimizer_total :
  forall A:dfa, wf_min A = true -> exists B, minimize group_id_bits A = Some B.
Proof. exact minimizer_total_at_width. Qed.
Print Assumptions C17_minimizer_total.

(* Non-vacuity of C17_size_independent. *)
Theorem C17_nonvacuous :
  wf_min ex_min_A = true
  /\ (N.of_nat (length (trans ex_min_A)) < 2 ^ N.of_nat state_id_bits)%N
  /\ minimize group_id_bits ex_min_A = Some ex_min_B
  /\ minimize group_id_bits ex_chain6 = Some ex_chain6.
Proof. exact size_independent_nonvacuous. Qed.
Print Assumptions C17_nonvacuous.

(* Necessity of the width obligation: with group ids narrower than the number of groups (2 bits,
   six groups) the minimizer silently produces an automaton that accepts "a" and rejects
   "aaaaa"; with 32 bits the chain is returned unchanged. *)
Theorem C17_wrap_miscompiles :
  wf_min ex_chain6 = true /\ 2 ^ 2 < length (trans ex_chain6) /\
  exists B, minimize 2 ex_chain6 = Some B
    /\ (accepts_tok ex_min_tbl B [97]%N 0%N /\ ~ accepts_tok ex_min_tbl ex_chain6 [97]%N 0%N)
    /\ (~ accepts_tok ex_min_tbl B [97;97;97;97;97]%N 0%N /\ accepts_tok ex_min_tbl ex_chain6 [97;97;97;97;97]%N 0%N)
    /\ minimize 32 ex_chain6 = Some ex_chain6.
Proof. exact ex_wrap_miscompiles. Qed.
Print Assumptions C17_wrap_miscompiles.
