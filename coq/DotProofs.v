(* DotProofs.v — the extractor reads back exactly the graph that the printer of Dot.v wrote. *)
From Scnr Require Import Base Automaton Dot.
From Coq Require Import Ascii String Decimal DecimalN Nnat.

(* ---------- small tools ---------- *)
Lemma lit_app p s : lit p (p ++ s) = Some s.
Proof. induction p as [|a p IH]; cbn [List.app lit]; auto. rewrite N.eqb_refl; auto. Qed.

Lemma opt_eqb_refl p : opt_eqb p p = true.
Proof. destruct p; cbn; auto. apply N.eqb_refl. Qed.

Lemma mapM_map_ext {A B C} (f:B -> option C) (g:A -> B) (h:A -> C) l :
  (forall x, In x l -> f (g x) = Some (h x)) -> mapM f (map g l) = Some (map h l).
Proof.
  induction l as [|x l IH]; intros H; cbn [map mapM]; auto.
  rewrite H by (left; auto). cbn [bind]. rewrite IH by (intros; apply H; right; auto). reflexivity.
Qed.

Lemma forallb_rev {A} (f:A -> bool) l : forallb f l = true -> forallb f (List.rev l) = true.
Proof. rewrite !forallb_forall. intros H x I. apply H. apply in_rev; auto. Qed.

(* ---------- decimal numbers ---------- *)
Lemma chars_digits u : forallb is_digit (chars_of_uint u) = true.
Proof. induction u; cbn [chars_of_uint forallb]; rewrite ?IHu; reflexivity. Qed.
Lemma uint_of_chars u : uint_of_digits (chars_of_uint u) = u.
Proof. induction u; cbn [chars_of_uint uint_of_digits]; rewrite ?IHu; reflexivity. Qed.

Definition nondigit_head (s:list N) : bool :=
  match s with [] => true | c :: _ => negb (is_digit c) end.

Lemma span_digits_app ds r :
  forallb is_digit ds = true -> nondigit_head r = true -> span_digits (ds ++ r) = (ds, r).
Proof.
  induction ds as [|c ds IH]; cbn [List.app forallb span_digits]; intros H1 H2.
  - destruct r as [|c r]; cbn [span_digits]; auto. cbn in H2. destruct (is_digit c); [discriminate|auto].
  - apply andb_true_iff in H1 as [H1 H3]. rewrite H1, IH; auto.
Qed.

Lemma num_of_digits_decn n : num_of_digits (decn n) = Some n.
Proof.
  unfold num_of_digits, decn. rewrite uint_of_chars, Unsigned.of_to, nlist_eqb_refl. reflexivity.
Qed.
Lemma decn_digits n : forallb is_digit (decn n) = true.
Proof. apply chars_digits. Qed.

Lemma number_decn n r : nondigit_head r = true -> number (decn n ++ r) = Some (n, r).
Proof.
  intros H. unfold number. rewrite span_digits_app; auto using decn_digits.
  rewrite num_of_digits_decn. reflexivity.
Qed.

(* the number is recovered from the END of a string whatever precedes it *)
Lemma span_digits_rev_decn n r :
  nondigit_head r = true -> span_digits (List.rev (decn n) ++ r) = (List.rev (decn n), r).
Proof. intros H. apply span_digits_app; auto. apply forallb_rev, decn_digits. Qed.

(* ---------- one line ---------- *)
Definition head_nonspace (s:list N) : bool :=
  match s with [] => true | c :: _ => negb (N.eqb c c_space) end.
Lemma count_spaces_app n s : head_nonspace s = true -> count_spaces (repeat c_space n ++ s) = (n, s).
Proof.
  intros H. induction n as [|n IH]; cbn [repeat List.app count_spaces].
  - destruct s as [|c s]; cbn [count_spaces]; auto. cbn in H. destruct (N.eqb c c_space); [discriminate|auto].
  - rewrite N.eqb_refl, IH. reflexivity.
Qed.

Lemma parse_name_ok p id r : parse_name (name_chars p id ++ r) = Some (p, id, r).
Proof.
  unfold parse_name, name_chars, dnat. rewrite <- !app_assoc. rewrite lit_app. cbn [bind].
  destruct p as [t|]; cbn [pref_chars].
  - rewrite <- !app_assoc. rewrite number_decn by reflexivity. cbn [bind List.app].
    change (N.eqb c_us c_quote) with false. rewrite N.eqb_refl. cbv iota.
    rewrite number_decn by reflexivity. cbn [bind].
    cbn [lit]. rewrite N.eqb_refl. cbn [bind]. rewrite Nat2N.id. reflexivity.
  - cbn [List.app]. rewrite number_decn by reflexivity. cbn [bind List.app].
    rewrite N.eqb_refl. rewrite Nat2N.id. reflexivity.
Qed.

Lemma parse_plain_tail_ok id : parse_plain_tail id (dnat id ++ s_attr_end) = true.
Proof.
  unfold parse_plain_tail, dnat. rewrite number_decn by reflexivity. cbv beta iota.
  rewrite Nat2N.id, Nat.eqb_refl, nlist_eqb_refl. reflexivity.
Qed.
Lemma parse_acc_tail_ok id t :
  parse_acc_tail id (dnat id ++ str " T" ++ decn t ++ s_attr_end) = Some t.
Proof.
  unfold parse_acc_tail, dnat. rewrite number_decn by reflexivity. cbn [bind].
  rewrite lit_app. cbn [bind]. rewrite number_decn by reflexivity. cbn [bind].
  rewrite Nat2N.id, Nat.eqb_refl, nlist_eqb_refl. reflexivity.
Qed.

Lemma lit_label_blue r : lit s_label (s_blue ++ r) = None. Proof. reflexivity. Qed.
Lemma lit_label_red r : lit s_label (s_red ++ r) = None. Proof. reflexivity. Qed.
Lemma lit_blue_red r : lit s_blue (s_red ++ r) = None. Proof. reflexivity. Qed.

Lemma parse_node_attrs_ok ind p id k :
  parse_node_attrs ind p id (node_attrs id k) = Some (LNode ind p id k).
Proof.
  unfold parse_node_attrs. destruct k; cbn [node_attrs].
  - rewrite lit_label_blue, lit_app, parse_plain_tail_ok. reflexivity.
  - rewrite lit_app, parse_plain_tail_ok. reflexivity.
  - rewrite lit_label_red, lit_blue_red, lit_app. cbn [bind]. rewrite parse_acc_tail_ok. reflexivity.
Qed.

(* the class id is the LAST " (C#n)" of the label: nothing is required of the text here
   (text_ok is only checked afterwards, on the recovered text) *)
Lemma parse_edge_tail_gen text c :
  parse_edge_tail (text ++ s_cls_open ++ decn c ++ s_edge_end)
  = if text_ok text then Some (text, c) else None.
Proof.
  unfold parse_edge_tail. rewrite !rev_app_distr, <- !app_assoc. rewrite lit_app. cbn [bind].
  rewrite span_digits_rev_decn by reflexivity. cbv iota.
  rewrite lit_app. cbn [bind]. rewrite !rev_involutive, num_of_digits_decn. reflexivity.
Qed.
Lemma parse_edge_tail_ok text c :
  text_ok text = true -> parse_edge_tail (text ++ s_cls_open ++ decn c ++ s_edge_end) = Some (text, c).
Proof. intros H. rewrite parse_edge_tail_gen, H. reflexivity. Qed.

Lemma lit_bracket_arrow r : lit (str " [") (str " -> " ++ r) = None. Proof. reflexivity. Qed.

Definition line_ok (l:line) : Prop :=
  match l with LEdge _ _ _ _ text _ => text_ok text = true | _ => True end.

Lemma parse_stmt_node ind p id k :
  parse_stmt ind (line_body (LNode ind p id k)) = Some (LNode ind p id k).
Proof.
  unfold parse_stmt. cbn [line_body]. rewrite parse_name_ok. cbn [bind]. cbv iota.
  rewrite lit_app. apply parse_node_attrs_ok.
Qed.
Lemma parse_stmt_edge ind p s d text c :
  text_ok text = true ->
  parse_stmt ind (line_body (LEdge ind p s d text c)) = Some (LEdge ind p s d text c).
Proof.
  intros H. unfold parse_stmt. cbn [line_body]. rewrite parse_name_ok. cbn [bind]. cbv iota.
  rewrite lit_bracket_arrow, lit_app. cbn [bind]. rewrite parse_name_ok. cbn [bind]. cbv iota.
  rewrite lit_app. cbn [bind]. rewrite lit_app. cbn [bind].
  rewrite parse_edge_tail_ok by auto. cbn [bind]. rewrite opt_eqb_refl. reflexivity.
Qed.
Lemma parse_label_ok ind text : parse_label ind (line_body (LLabel ind text)) = Some (LLabel ind text).
Proof.
  unfold parse_label. cbn [line_body]. rewrite lit_app. cbn [bind].
  rewrite rev_app_distr, lit_app. cbn [bind]. rewrite rev_involutive. reflexivity.
Qed.
Lemma parse_sub_ok ind k : parse_sub ind (line_body (LSub ind k)) = Some (LSub ind k).
Proof.
  unfold parse_sub, dnat. cbn [line_body]. rewrite lit_app. cbn [bind]. unfold dnat.
  rewrite number_decn by reflexivity. cbn [bind]. rewrite nlist_eqb_refl, Nat2N.id. reflexivity.
Qed.

Lemma parse_body_stmt ind p id r : parse_body ind (name_chars p id ++ r) = parse_stmt ind (name_chars p id ++ r).
Proof. reflexivity. Qed.
Lemma parse_body_label ind r : parse_body ind (s_label ++ r) = parse_label ind (s_label ++ r).
Proof. reflexivity. Qed.
Lemma parse_body_sub ind r :
  parse_body ind (str "subgraph cluster_" ++ r) = parse_sub ind (str "subgraph cluster_" ++ r).
Proof. reflexivity. Qed.

Lemma parse_body_ok l : line_ok l -> parse_body (indent_of l) (line_body l) = Some l.
Proof.
  destruct l; intros H; cbn [indent_of].
  - reflexivity.
  - cbn [line_body]. rewrite parse_body_label. apply parse_label_ok.
  - reflexivity.
  - cbn [line_body]. rewrite parse_body_stmt. apply parse_stmt_node.
  - cbn [line_body]. rewrite parse_body_stmt. apply (parse_stmt_edge ind pref src dst text cls H).
  - cbn [line_body]. rewrite parse_body_sub. apply parse_sub_ok.
  - reflexivity.
Qed.

Lemma line_body_head l : head_nonspace (line_body l) = true.
Proof. destruct l; reflexivity. Qed.

Theorem parse_print_line l : line_ok l -> parse_line (print_line l) = Some l.
Proof.
  intros H. unfold parse_line, print_line. rewrite count_spaces_app by apply line_body_head.
  apply parse_body_ok; auto.
Qed.

Lemma parse_print_lines ls : Forall line_ok ls -> mapM parse_line (map print_line ls) = Some ls.
Proof.
  induction 1 as [|l ls H _ IH]; cbn [map mapM]; auto.
  rewrite parse_print_line by auto. cbn [bind]. rewrite IH. reflexivity.
Qed.

(* ---------- the line structure ---------- *)
Definition item_ok (cur:option N) (l:line) : bool :=
  match l with
  | LNode i p _ _ | LEdge i p _ _ _ _ => Nat.eqb i (scope_ind cur) && opt_eqb p cur
  | _ => false
  end.

Lemma scopes_items k cur items rest :
  Forall (fun l => item_ok cur l = true) items ->
  scopes k cur (items ++ rest)
  = do r <- scopes k cur rest; let (its, cls) := r in Some (items ++ its, cls).
Proof.
  induction 1 as [|l items H _ IH]; cbn [List.app].
  - destruct (scopes k cur rest) as [[? ?]|]; reflexivity.
  - destruct l; cbn [item_ok] in H; try discriminate; cbn [scopes]; rewrite H, IH;
      destruct (scopes k cur rest) as [[? ?]|]; reflexivity.
Qed.

Lemma graph_lines_items cur cls_text A :
  Forall (fun l => item_ok cur l = true) (graph_lines (scope_ind cur) cur cls_text A).
Proof.
  unfold graph_lines. apply Forall_app. split; apply Forall_forall; intros l I;
    apply in_map_iff in I as (x & <- & _); cbn [item_ok edge_line];
    rewrite Nat.eqb_refl, opt_eqb_refl; reflexivity.
Qed.

Lemma parse_la_ok t pos : parse_la (la_label t pos) = Some (t, pos).
Proof.
  unfold parse_la, la_label. rewrite lit_app. cbn [bind].
  destruct pos; rewrite number_decn by reflexivity; reflexivity.
Qed.

Lemma scopes_clusters cls_text las : forall k,
  scopes k None (clusters_lines cls_text k las ++ [LClose 0])
  = Some ([], map (fun x => (fst x, fst (snd x), graph_lines 4 (Some (fst x)) cls_text (snd (snd x)))) las).
Proof.
  induction las as [|[t [pos A]] las IH]; intros k.
  - reflexivity.
  - cbn [clusters_lines List.app map fst snd]. rewrite <- app_assoc. cbn [List.app].
    cbn [scopes]. rewrite !Nat.eqb_refl. cbn [andb]. rewrite parse_la_ok. cbn [bind]. cbv iota.
    rewrite (scopes_items (S k) (Some t)) by apply (graph_lines_items (Some t)).
    cbn [scopes]. rewrite Nat.eqb_refl. rewrite IH. cbn [bind is_nil]. cbv iota.
    rewrite app_nil_r. reflexivity.
Qed.

(* ---------- one scope ---------- *)
Lemma span_nodes_lines ind pref (f:nat -> nkind) cls_text qs es :
  span_nodes (map (fun q => LNode ind pref q (f q)) qs ++ map (edge_line ind pref cls_text) es)
  = (map (fun q => (q, f q)) qs, map (edge_line ind pref cls_text) es).
Proof.
  induction qs as [|q qs IH]; cbn [map List.app span_nodes].
  - destruct es; reflexivity.
  - rewrite IH. reflexivity.
Qed.

Lemma node_entry_kind A q : node_entry (q, node_kind A q) = Some (q, kind_label (node_kind A q)).
Proof.
  unfold node_kind, node_entry. destruct (Nat.eqb q 0) eqn:E.
  - reflexivity.
  - destruct (nth q (fin A) (false, 0%N)) as [[|] t]; cbv beta iota; rewrite ?E; reflexivity.
Qed.

Lemma edge_entry_line ind pref cls_text e : edge_entry (edge_line ind pref cls_text e) = Some e.
Proof. destruct e as [[s d] c]. reflexivity. Qed.

Lemma in_edges_from s d c q es : In (s, d, c) (edges_from q es) <-> s = q /\ In (c, d) es.
Proof.
  unfold edges_from. rewrite in_map_iff. split.
  - intros ([c' d'] & E & I). cbn in E. inversion E; subst. auto.
  - intros [-> I]. exists (c, d). auto.
Qed.

Lemma graph_ok_graph_of A : wf_graph A = true -> graph_ok (graph_of A) = true.
Proof.
  intros W. apply andb_true_iff in W as [_ W]. rewrite forallb_forall in W.
  unfold graph_ok. cbn [graph_of g_nodes g_edges].
  rewrite map_length, seq_length, map_map. cbn [fst]. rewrite map_id, natlist_eqb_refl. cbn [andb].
  apply forallb_forall. intros [[s d] c] I. cbn [fst snd].
  apply in_flat_map in I as ([q es] & I1 & I2). cbn [fst snd] in I2.
  apply in_edges_from in I2 as [-> I2].
  pose proof (in_combine_l _ _ _ _ I1) as Hq. apply in_seq in Hq.
  pose proof (in_combine_r _ _ _ _ I1) as He. apply W in He. rewrite forallb_forall in He.
  specialize (He _ I2). cbn [snd] in He. unfold nstates in *.
  apply andb_true_iff. split; [apply Nat.ltb_lt; lia | exact He].
Qed.

Lemma graph_of_items_ok ind pref cls_text A :
  wf_graph A = true -> graph_of_items (graph_lines ind pref cls_text A) = Some (graph_of A).
Proof.
  intros W. unfold graph_of_items, graph_lines. rewrite span_nodes_lines.
  rewrite (mapM_map_ext node_entry _ (fun q => (q, kind_label (node_kind A q))))
    by (intros; apply node_entry_kind).
  cbn [bind].
  rewrite (mapM_map_ext edge_entry _ (fun e => e)) by (intros; apply edge_entry_line).
  cbn [bind]. rewrite map_id.
  pose proof (graph_ok_graph_of A W) as G.
  change {| g_nodes := map (fun q : nat => (q, kind_label (node_kind A q))) (seq 0 (nstates A));
            g_edges := g_edges (graph_of A) |} with (graph_of A).
  rewrite G. reflexivity.
Qed.

(* ---------- the file ---------- *)
Lemma in_edges_class A e : In e (g_edges (graph_of A)) -> In (snd e) (classes_of A).
Proof.
  destruct e as [[s d] c]. cbn [graph_of g_edges snd]. intros I.
  apply in_flat_map in I as ([q es] & I1 & I2). cbn [fst snd] in I2.
  apply in_edges_from in I2 as [_ I2]. apply in_combine_r in I1.
  unfold classes_of. apply in_map_iff. exists (c, d). split; auto.
  apply in_concat. exists es. auto.
Qed.

Lemma graph_lines_ok ind pref cls_text A :
  (forall c, In c (classes_of A) -> text_ok (cls_text c) = true) ->
  Forall line_ok (graph_lines ind pref cls_text A).
Proof.
  intros H. unfold graph_lines. apply Forall_app. split; apply Forall_forall; intros l I;
    apply in_map_iff in I as (x & <- & I); cbn [line_ok edge_line]; auto.
  apply H. apply in_edges_class; auto.
Qed.

Lemma clusters_lines_ok cls_text las : forall k,
  (forall x, In x las -> forall c, In c (classes_of (snd (snd x))) -> text_ok (cls_text c) = true) ->
  Forall line_ok (clusters_lines cls_text k las).
Proof.
  induction las as [|[t [pos A]] las IH]; intros k H; cbn [clusters_lines]; auto.
  constructor; [exact I|]. constructor; [exact I|]. apply Forall_app. split.
  - apply graph_lines_ok. apply (H (t, (pos, A))). left; auto.
  - constructor; [exact I|]. apply IH. intros x Hx. apply H. right; auto.
Qed.

Lemma label_safe_split cls_text M : label_safe cls_text M ->
  (forall c, In c (classes_of (fst M)) -> text_ok (cls_text c) = true) /\
  (forall x, In x (snd M) -> forall c, In c (classes_of (snd (snd x))) -> text_ok (cls_text c) = true).
Proof.
  intros H. unfold label_safe, used_classes in H. split.
  - intros c I. apply H. apply in_app_iff. left; auto.
  - intros x Hx c I. apply H. apply in_app_iff. right. apply in_flat_map. exists x. auto.
Qed.

Lemma file_lines_ok title cls_text M : label_safe cls_text M -> Forall line_ok (file_lines title cls_text M).
Proof.
  intros H. apply label_safe_split in H as [H1 H2]. unfold file_lines.
  constructor; [exact I|]. constructor; [exact I|]. constructor; [exact I|].
  apply Forall_app. split; [apply graph_lines_ok; auto|].
  apply Forall_app. split; [apply clusters_lines_ok; auto|]. constructor; [exact I|constructor].
Qed.

Lemma parse_file_lines title cls_text M :
  wf_dot M = true -> parse_file (file_lines title cls_text M) = Some (dotfile_of M).
Proof.
  intros W. apply andb_true_iff in W as [W1 W2]. rewrite forallb_forall in W2.
  unfold file_lines, parse_file.
  rewrite (scopes_items 0 None) by apply (graph_lines_items None).
  rewrite scopes_clusters. cbn [bind]. cbv iota. rewrite app_nil_r.
  rewrite graph_of_items_ok by auto. cbn [bind].
  rewrite (mapM_map_ext cluster_of_items _ (fun x => (fst x, fst (snd x), graph_of (snd (snd x))))).
  - reflexivity.
  - intros x Hx. unfold cluster_of_items. rewrite graph_of_items_ok by (apply W2; auto). reflexivity.
Qed.

Theorem render_faithful title cls_text M :
  wf_dot M = true -> label_safe cls_text M ->
  extract (render title cls_text M) = Some (dotfile_of M).
Proof.
  intros W L. unfold extract, render.
  rewrite parse_print_lines by (apply file_lines_ok; auto). cbn [bind].
  apply parse_file_lines; auto.
Qed.

Lemma label_safeb_spec cls_text M : label_safeb cls_text M = true <-> label_safe cls_text M.
Proof. unfold label_safeb, label_safe. apply forallb_forall. Qed.

(* ---------- what the extracted file says, spelled out ---------- *)
Lemma edges_seq_concat (l:list (list (N * nat))) : forall k,
  map (fun e : nat * nat * N => (snd e, snd (fst e)))
      (flat_map (fun x => edges_from (fst x) (snd x)) (combine (seq k (List.length l)) l))
  = List.concat l.
Proof.
  induction l as [|es l IH]; intros k; cbn [List.length seq combine flat_map List.concat map]; auto.
  rewrite map_app, IH. f_equal. unfold edges_from. cbn [fst snd]. rewrite map_map. cbn [fst snd].
  rewrite <- (map_id es) at 2. apply map_ext. intros [c d]. reflexivity.
Qed.

Lemma edges_seq_in (l:list (list (N * nat))) s d c : forall k,
  In (s, d, c) (flat_map (fun x => edges_from (fst x) (snd x)) (combine (seq k (List.length l)) l))
  <-> k <= s /\ In (c, d) (nth (s - k) l []).
Proof.
  induction l as [|es l IH]; intros k; cbn [List.length seq combine flat_map].
  - cbn [In]. destruct (s - k); cbn; tauto.
  - rewrite in_app_iff, in_edges_from, IH. cbn [fst snd].
    destruct (Nat.eq_dec s k) as [->|Ne].
    + rewrite Nat.sub_diag. cbn [nth]. intuition lia.
    + destruct (s - k) as [|m] eqn:E.
      * intuition lia.
      * cbn [nth]. replace (s - S k) with m by lia. intuition lia.
Qed.

Theorem nodes_edges_exact title cls_text A las :
  wf_dot (A, las) = true -> label_safe cls_text (A, las) ->
  exists d, extract (render title cls_text (A, las)) = Some d /\
    (* exactly one node per state, in order *)
    map fst (g_nodes (d_main d)) = seq 0 (List.length (trans A)) /\
    (* accepting labels exactly for the accepting states other than 0, with their token type *)
    (forall q t, In (q, Some t) (g_nodes (d_main d)) <->
       q <> 0 /\ q < List.length (trans A) /\ nth q (fin A) (false, 0%N) = (true, t)) /\
    (forall q, In (q, None) (g_nodes (d_main d)) <->
       q < List.length (trans A) /\ (q = 0 \/ fst (nth q (fin A) (false, 0%N)) = false)) /\
    (* exactly one edge per transition, in order, with its class id *)
    map (fun e : nat * nat * N => (snd e, snd (fst e))) (g_edges (d_main d)) = List.concat (trans A) /\
    (forall s t c, In (s, t, c) (g_edges (d_main d)) <-> In (c, t) (nth s (trans A) [])) /\
    (* one cluster per lookahead, with its token type, polarity and automaton *)
    map (fun x : N * bool * graph => (fst (fst x), snd (fst x))) (d_clusters d)
      = map (fun x : N * (bool * dfa) => (fst x, fst (snd x))) las /\
    map snd (d_clusters d) = map (fun x : N * (bool * dfa) => graph_of (snd (snd x))) las.
Proof.
  intros W L. exists (dotfile_of (A, las)). split; [apply render_faithful; auto|].
  cbn [dotfile_of d_main d_clusters fst snd graph_of g_nodes g_edges]. unfold nstates.
  split; [|split; [|split; [|split; [|split; [|split]]]]].
  - rewrite map_map. cbn [fst]. apply map_id.
  - intros q t. rewrite in_map_iff. unfold node_kind. split.
    + intros (q' & E & I). apply in_seq in I. inversion E; subst q'.
      destruct (Nat.eqb q 0) eqn:E0; [discriminate|]. apply Nat.eqb_neq in E0.
      destruct (nth q (fin A) (false, 0%N)) as [[|] t']; cbn in H1; [|discriminate].
      inversion H1; subst. repeat split; auto; lia.
    + intros (H0 & Hq & E). exists q. split; [|apply in_seq; lia].
      apply Nat.eqb_neq in H0. rewrite H0, E. reflexivity.
  - intros q. rewrite in_map_iff. unfold node_kind. split.
    + intros (q' & E & I). apply in_seq in I. inversion E; subst q'. split; [lia|].
      destruct (Nat.eqb q 0) eqn:E0; [apply Nat.eqb_eq in E0; auto|].
      destruct (nth q (fin A) (false, 0%N)) as [[|] t']; cbn in H1; [discriminate|]. right; reflexivity.
    + intros (Hq & H0). exists q. split; [|apply in_seq; lia].
      destruct (Nat.eqb q 0) eqn:E0; [reflexivity|].
      destruct H0 as [->|H0]; [discriminate|].
      destruct (nth q (fin A) (false, 0%N)) as [[|] t']; cbn in H0; [discriminate|reflexivity].
  - apply edges_seq_concat.
  - intros s t c. rewrite edges_seq_in. rewrite Nat.sub_0_r. intuition lia.
  - rewrite map_map. reflexivity.
  - rewrite map_map. reflexivity.
Qed.

(* ---------- the flat text ---------- *)
Lemma split_lines_aux_line l : forall cur rest, no_nl l = true ->
  split_lines_aux cur (l ++ c_nl :: rest) = (List.rev cur ++ l) :: split_lines_aux [] rest.
Proof.
  induction l as [|c l IH]; intros cur rest H; cbn [List.app split_lines_aux].
  - rewrite N.eqb_refl, app_nil_r. reflexivity.
  - cbn [no_nl forallb] in H. apply andb_true_iff in H as [H1 H2].
    destruct (N.eqb c c_nl); [discriminate|]. rewrite IH by exact H2.
    cbn [List.rev]. rewrite <- app_assoc. reflexivity.
Qed.
Lemma split_lines_concat ls : forallb no_nl ls = true ->
  split_lines (List.concat (map (fun l => l ++ [c_nl]) ls)) = ls.
Proof.
  unfold split_lines. induction ls as [|l ls IH]; intros H; cbn [map List.concat]; auto.
  cbn [forallb] in H. apply andb_true_iff in H as [H1 H2].
  rewrite <- app_assoc. cbn [List.app]. rewrite split_lines_aux_line by auto. cbn [List.rev List.app].
  rewrite IH; auto.
Qed.

Lemma no_nl_app a b : no_nl (a ++ b) = no_nl a && no_nl b.
Proof. apply forallb_app. Qed.
Lemma no_nl_uint u : no_nl (chars_of_uint u) = true.
Proof. induction u; cbn [chars_of_uint no_nl forallb]; auto. Qed.
Lemma no_nl_decn n : no_nl (decn n) = true. Proof. apply no_nl_uint. Qed.
Lemma no_nl_dnat n : no_nl (dnat n) = true. Proof. apply no_nl_uint. Qed.
Lemma no_nl_spaces n : no_nl (repeat c_space n) = true.
Proof. induction n; cbn [repeat no_nl forallb]; auto. Qed.
Lemma text_ok_aux_no_nl s : forall esc, text_ok_aux esc s = true -> no_nl s = true.
Proof.
  induction s as [|c s IH]; intros esc H; cbn [no_nl forallb]; auto.
  cbn [text_ok_aux] in H. destruct (N.eqb c c_nl); [discriminate|]. cbn [negb andb].
  destruct esc; [eauto|]. destruct (N.eqb c c_bslash); [eauto|].
  destruct (N.eqb c c_quote); [discriminate|eauto].
Qed.
Lemma text_ok_no_nl s : text_ok s = true -> no_nl s = true.
Proof. apply text_ok_aux_no_nl. Qed.

Definition line_nl_ok (l:line) : Prop :=
  match l with
  | LLabel _ text => no_nl text = true
  | LEdge _ _ _ _ text _ => text_ok text = true
  | _ => True
  end.

Lemma no_nl_name p id : no_nl (name_chars p id) = true.
Proof.
  unfold name_chars. destruct p; cbn [pref_chars]; rewrite !no_nl_app, ?no_nl_decn, ?no_nl_dnat; reflexivity.
Qed.
Lemma print_line_no_nl l : line_nl_ok l -> no_nl (print_line l) = true.
Proof.
  intros H. unfold print_line. rewrite no_nl_app, no_nl_spaces. cbn [andb].
  destruct l; cbn [line_body line_nl_ok] in *; try reflexivity.
  - rewrite !no_nl_app, H. reflexivity.
  - destruct k; cbn [node_attrs]; rewrite !no_nl_app, ?no_nl_name, ?no_nl_decn, ?no_nl_dnat; reflexivity.
  - rewrite !no_nl_app, !no_nl_name, no_nl_decn, (text_ok_no_nl _ H). reflexivity.
  - rewrite !no_nl_app, no_nl_dnat. reflexivity.
Qed.

Lemma no_nl_la t pos : no_nl (la_label t pos) = true.
Proof. unfold la_label. rewrite !no_nl_app, no_nl_decn. destruct pos; reflexivity. Qed.

Lemma graph_lines_nl ind pref cls_text A :
  (forall c, In c (classes_of A) -> text_ok (cls_text c) = true) ->
  Forall line_nl_ok (graph_lines ind pref cls_text A).
Proof.
  intros H. unfold graph_lines. apply Forall_app. split; apply Forall_forall; intros l I;
    apply in_map_iff in I as (x & <- & I); cbn [line_nl_ok edge_line]; auto.
  apply H. apply in_edges_class; auto.
Qed.
Lemma clusters_lines_nl cls_text las : forall k,
  (forall x, In x las -> forall c, In c (classes_of (snd (snd x))) -> text_ok (cls_text c) = true) ->
  Forall line_nl_ok (clusters_lines cls_text k las).
Proof.
  induction las as [|[t [pos A]] las IH]; intros k H; cbn [clusters_lines]; auto.
  constructor; [exact I|]. constructor; [apply no_nl_la|]. apply Forall_app. split.
  - apply graph_lines_nl. apply (H (t, (pos, A))). left; auto.
  - constructor; [exact I|]. apply IH. intros x Hx. apply H. right; auto.
Qed.
Lemma file_lines_nl title cls_text M :
  no_nl title = true -> label_safe cls_text M -> Forall line_nl_ok (file_lines title cls_text M).
Proof.
  intros T H. apply label_safe_split in H as [H1 H2]. unfold file_lines.
  constructor; [exact I|]. constructor; [exact T|]. constructor; [exact I|].
  apply Forall_app. split; [apply graph_lines_nl; auto|].
  apply Forall_app. split; [apply clusters_lines_nl; auto|]. constructor; [exact I|constructor].
Qed.

Theorem render_text_lines title cls_text M :
  no_nl title = true -> label_safe cls_text M ->
  split_lines (render_text title cls_text M) = render title cls_text M.
Proof.
  intros T L. unfold render_text. apply split_lines_concat. unfold render.
  apply forallb_forall. intros s I. apply in_map_iff in I as (l & <- & I).
  apply print_line_no_nl. pose proof (file_lines_nl title cls_text M T L) as F.
  rewrite Forall_forall in F. auto.
Qed.

Theorem render_text_faithful title cls_text M :
  no_nl title = true -> wf_dot M = true -> label_safe cls_text M ->
  extract_text (render_text title cls_text M) = Some (dotfile_of M).
Proof.
  intros T W L. unfold extract_text. rewrite render_text_lines by auto. apply render_faithful; auto.
Qed.

(* ---------- file names ---------- *)
Theorem file_names_spec folder prefix names :
  file_names folder prefix names
  = map (fun n => folder ++ str "/" ++ prefix ++ str "_" ++ n ++ str ".dot") names
  /\ List.length (file_names folder prefix names) = List.length names.
Proof. unfold file_names. split; [reflexivity|apply map_length]. Qed.

Theorem file_name_inj folder prefix n1 n2 :
  file_name folder prefix n1 = file_name folder prefix n2 -> n1 = n2.
Proof.
  unfold file_name. intros H.
  repeat apply app_inv_head in H. apply app_inv_tail in H. exact H.
Qed.

(* ---------- examples (vm_compute) ---------- *)
(* main automaton: 0 -C#0-> 1, 0 -C#7-> 2, 2 -C#7-> 2, state 2 accepting token type 5;
   negative lookahead for token type 20: 0 -C#26-> 1, state 1 accepting.
   The text of class 7 contains an escaped quote and something that looks like a class id. *)
Definition ex_main : dfa :=
  mk_dfa_dot [[(0%N, 1%N); (7%N, 2%N)]; []; [(7%N, 2%N)]] [(false, 0%N); (false, 0%N); (true, 5%N)].
Definition ex_la : dfa := mk_dfa_dot [[(26%N, 1%N)]; []] [(false, 0%N); (true, 0%N)].
Definition ex_M : dfa * list (N * (bool * dfa)) := (ex_main, [(20%N, (false, ex_la))]).
Definition ex_cls (c:N) : list N :=
  if N.eqb c 7 then str "[a-z\""] (C#9)" else if N.eqb c 0 then str "\\r" else str ":".
Definition ex_title : list N := str "Compiled DFA INITIAL: \\r\\n...".
Definition ex_lines : list (list N) := render ex_title ex_cls ex_M.

Example ex_hyps : wf_dot ex_M = true /\ label_safeb ex_cls ex_M = true.
Proof. vm_compute. split; reflexivity. Qed.

Example ex_text : ex_lines =
  [ str "digraph {";
    str "  label=""Compiled DFA INITIAL: \\r\\n..."";";
    str "  rankdir=LR;";
    str "  ""0"" [shape=circle, color=blue, penwidth=3, label=""0""];";
    str "  ""1"" [label=""1""];";
    str "  ""2"" [shape=circle, color=red, penwidth=3, label=""2 T5""];";
    str "  ""0"" -> ""1"" [label=""\\r (C#0)""];";
    str "  ""0"" -> ""2"" [label=""[a-z\""] (C#9) (C#7)""];";
    str "  ""2"" -> ""2"" [label=""[a-z\""] (C#9) (C#7)""];";
    str "  subgraph cluster_0 {";
    str "    label=""LA for T20(Neg)"";";
    str "    ""20_0"" [shape=circle, color=blue, penwidth=3, label=""0""];";
    str "    ""20_1"" [shape=circle, color=red, penwidth=3, label=""1 T0""];";
    str "    ""20_0"" -> ""20_1"" [label="": (C#26)""];";
    str "  }";
    str "}" ].
Proof. vm_compute. reflexivity. Qed.

Definition ex_dot : dotfile :=
  {| d_main := {| g_nodes := [(0, None); (1, None); (2, Some 5%N)];
                  g_edges := [(0, 1, 0%N); (0, 2, 7%N); (2, 2, 7%N)] |};
     d_clusters := [(20%N, false, {| g_nodes := [(0, None); (1, Some 0%N)];
                                     g_edges := [(0, 1, 26%N)] |})] |}.

Example ex_roundtrip : extract ex_lines = Some (dotfile_of ex_M) /\ dotfile_of ex_M = ex_dot.
Proof. vm_compute. split; reflexivity. Qed.
Example ex_roundtrip_text : extract_text (render_text ex_title ex_cls ex_M) = Some ex_dot.
Proof. vm_compute. reflexivity. Qed.

(* the extractor is not constant: it follows the text *)
Fixpoint remove_nth {A} (n:nat) (l:list A) : list A :=
  match l with [] => [] | x :: l' => match n with 0 => l' | S n' => x :: remove_nth n' l' end end.
Fixpoint replace_nth {A} (n:nat) (y:A) (l:list A) : list A :=
  match l with [] => [] | x :: l' => match n with 0 => y :: l' | S n' => x :: replace_nth n' y l' end end.

(* dropping the edge line 0 -> 1 *)
Example ex_drop_edge :
  extract (remove_nth 6 ex_lines)
  = Some {| d_main := {| g_nodes := [(0, None); (1, None); (2, Some 5%N)];
                         g_edges := [(0, 2, 7%N); (2, 2, 7%N)] |};
            d_clusters := d_clusters ex_dot |}
  /\ extract (remove_nth 6 ex_lines) <> extract ex_lines.
Proof. vm_compute. split; [reflexivity | discriminate]. Qed.

(* T5 changed to T6 in the label of node 2 *)
Example ex_change_token :
  extract (replace_nth 5 (str "  ""2"" [shape=circle, color=red, penwidth=3, label=""2 T6""];") ex_lines)
  = Some {| d_main := {| g_nodes := [(0, None); (1, None); (2, Some 6%N)];
                         g_edges := g_edges (d_main ex_dot) |};
            d_clusters := d_clusters ex_dot |}
  /\ extract (replace_nth 5 (str "  ""2"" [shape=circle, color=red, penwidth=3, label=""2 T6""];") ex_lines)
     <> extract ex_lines.
Proof. vm_compute. split; [reflexivity | discriminate]. Qed.

(* the class id is the last (C#n) of the label; the polarity and token type come from the cluster label *)
Example ex_change_class_and_polarity :
  extract (replace_nth 7 (str "  ""0"" -> ""2"" [label=""[a-z\""] (C#9) (C#7) (C#8)""];")
          (replace_nth 10 (str "    label=""LA for T20(Pos)"";") ex_lines))
  = Some {| d_main := {| g_nodes := g_nodes (d_main ex_dot);
                         g_edges := [(0, 1, 0%N); (0, 2, 8%N); (2, 2, 7%N)] |};
            d_clusters := [(20%N, true, {| g_nodes := [(0, None); (1, Some 0%N)];
                                           g_edges := [(0, 1, 26%N)] |})] |}.
Proof. vm_compute. reflexivity. Qed.

(* malformed files are rejected: a raw quote in a label, an edge to an undeclared node, a node
   name that does not carry the cluster's prefix, a missing closing brace, a number with a leading zero *)
Example ex_malformed :
  extract (replace_nth 6 (str "  ""0"" -> ""1"" [label=""a""b (C#0)""];") ex_lines) = None /\
  extract (replace_nth 6 (str "  ""0"" -> ""3"" [label=""\\r (C#0)""];") ex_lines) = None /\
  extract (replace_nth 12 (str "    ""21_1"" [shape=circle, color=red, penwidth=3, label=""1 T0""];") ex_lines) = None /\
  extract (remove_nth 15 ex_lines) = None /\
  extract (replace_nth 4 (str "  ""01"" [label=""1""];") ex_lines) = None /\
  extract (remove_nth 4 ex_lines) = None.
Proof. vm_compute. repeat split; reflexivity. Qed.

Example ex_enc :
  extract_enc ex_lines = enc_dotfile (dotfile_of ex_M) /\
  extract_enc ex_lines
  = [[1; 1]; [3; 3]; [0; 0]; [0; 1]; [1; 2; 5]; [2; 0; 1; 0]; [2; 0; 2; 7]; [2; 2; 2; 7];
     [3; 20; 0]; [2; 1]; [0; 0]; [1; 1; 0]; [2; 0; 1; 26]]%N /\
  extract_enc (remove_nth 15 ex_lines) = [[0%N]].
Proof. vm_compute. repeat split; reflexivity. Qed.

Example ex_file_names :
  file_names (str "target/out") (str "String") [str "INITIAL"; str "STRING"]
  = [str "target/out/String_INITIAL.dot"; str "target/out/String_STRING.dot"].
Proof. vm_compute. reflexivity. Qed.

(* node IDs: distinct (cluster prefix, state) pairs never share a node name — a Graphviz node is identified by its
   ID in the whole file, so this is what keeps the states of different lookahead automata apart *)
Lemma name_chars_inj p id p' id' : name_chars p id = name_chars p' id' -> p = p' /\ id = id'.
Proof.
  intros H. pose proof (parse_name_ok p id []) as H1. pose proof (parse_name_ok p' id' []) as H2.
  rewrite H in H1. rewrite H1 in H2. inversion H2; auto.
Qed.
