(* ModeProofs.v — find_from of a scanner mode with its lookahead automata: no panic, the meaning
   of the lookahead result, and the selection theorem stated with that meaning. *)
From Scnr Require Import Base Automaton FindFrom FindFromProofs.

Lemma dfa_okb_ok D : dfa_okb D = true -> dfa_ok D.
Proof.
  unfold dfa_okb, dfa_ok, acc. intros H q t Ha.
  destruct (nth_in_or_default q (fin D) (false, 0%N)) as [Hin|Hd].
  - rewrite forallb_forall in H. specialize (H _ Hin).
    destruct (nth q (fin D) (false, 0%N)) as [[|] t']; [|discriminate].
    cbn in H. apply N.eqb_eq in Ha. subst. apply nmem_in. exact H.
  - rewrite Hd in Ha. discriminate.
Qed.

Lemma mode_okb_ok M : mode_okb M = true -> mode_ok M.
Proof.
  unfold mode_okb, mode_ok. intros H. apply andb_true_iff in H as [H1 H2]. split.
  - apply dfa_okb_ok; exact H1.
  - intros t pos D Hn. apply nassoc_in in Hn. rewrite forallb_forall in H2.
    specialize (H2 _ Hn). cbn in H2. apply dfa_okb_ok; exact H2.
Qed.

Section M.
Variable tbl : N -> N -> bool.

Lemma no_la_ok : forall t rest, no_la t rest <> Panic.
Proof. intros; unfold no_la; discriminate. Qed.

(* ---------- the lookahead automaton: longest non-empty accepted prefix ---------- *)
Definition la_match (D:dfa) (rest:list N) (j:nat) : Prop :=
  0 < j <= length rest /\ exists t, accepts_tok tbl D (firstn j rest) t.

Lemma find_plain_spec D s : dfa_ok D ->
  match find_plain tbl D s with
  | Panic => False
  | Ok None => forall j, ~ la_match D s j
  | Ok (Some (t, e)) => exists j, la_match D s j /\ e = bpos s j /\ forall j', la_match D s j' -> bpos s j' <= e
  end.
Proof.
  intros Hok. unfold find_plain.
  pose proof (find_from_spec tbl D no_la no_la_ok Hok s) as H.
  destruct (find_from tbl D no_la s) as [[[t e]|]|]; [| |exact H].
  - destruct H as (k & l & He & (Hk & Ha & Hl) & Hmax).
    unfold lad, no_la in Hl. inversion Hl; subst l.
    exists k. split; [split; [exact Hk|exists t; exact Ha]|]. split; [exact He|].
    intros j' (Hj & t' & Ha').
    assert (Hc : Cand tbl D no_la s j' 0 t') by (split; [exact Hj|split; [exact Ha'|reflexivity]]).
    specialize (Hmax _ _ _ Hc). unfold le_c in Hmax. cbn [ext tk] in Hmax. lia.
  - intros j (Hj & t & Ha). apply (H j 0 t). split; [exact Hj|split; [exact Ha|reflexivity]].
Qed.

(* what the lookahead of token type t says about the rest: l = bytes of trailing context *)
Definition la_holds (L:list (N * (bool * dfa))) (t:N) (rest:list N) (l:nat) : Prop :=
  match nassoc t L with
  | None => l = 0
  | Some (true, D) =>
      exists j, la_match D rest j /\ l = bpos rest j /\ forall j', la_match D rest j' -> bpos rest j' <= l
  | Some (false, D) => (forall j, ~ la_match D rest j) /\ l = 0
  end.

Variable M : mode_aut.
Hypothesis Mok : mode_ok M.

Lemma la_of_ok : forall t rest, la_of tbl (las M) t rest <> Panic.
Proof.
  intros t rest. unfold la_of. destruct (nassoc t (las M)) as [[pos D]|] eqn:E; [|discriminate].
  pose proof (find_plain_spec D rest (proj2 Mok _ _ _ E)) as H.
  destruct (find_plain tbl D rest) as [[[t' e]|]|]; [discriminate|discriminate|destruct H].
Qed.

Lemma la_of_spec t rest l :
  lad (la_of tbl (las M)) t rest = Some l <-> la_holds (las M) t rest l.
Proof.
  unfold lad, la_of, la_holds. destruct (nassoc t (las M)) as [[pos D]|] eqn:E.
  - pose proof (find_plain_spec D rest (proj2 Mok _ _ _ E)) as H.
    destruct (find_plain tbl D rest) as [[[t' e]|]|]; [| |destruct H].
    + destruct H as (j & Hj & He & Hmax). destruct pos.
      * split.
        -- intros Hl. inversion Hl; subst l. exists j. auto.
        -- intros (j2 & Hj2 & Hl2 & Hmax2). f_equal. specialize (Hmax _ Hj2). specialize (Hmax2 _ Hj). lia.
      * split; [discriminate|]. intros [Hn _]. exfalso. exact (Hn j Hj).
    + destruct pos.
      * split; [discriminate|]. intros (j & Hj & _). exfalso. exact (H j Hj).
      * split.
        -- intros Hl. inversion Hl. split; auto.
        -- intros [_ ->]. reflexivity.
  - split; [intros Hl; inversion Hl; reflexivity | intros ->; reflexivity].
Qed.

(* candidates of a mode: k characters accepted for token type t, lookahead of t holds on the
   rest with l bytes of trailing context *)
Definition MCand (s:list N) (k l:nat) (t:N) : Prop :=
  0 < k <= length s /\ accepts_tok tbl (main M) (firstn k s) t /\ la_holds (las M) t (skipn k s) l.

Definition mprio (t:N) : nat := priod (main M) t.

Theorem find_mode_spec s :
  match find_mode tbl M s with
  | Panic => False
  | Ok None => forall k l t, ~ MCand s k l t
  | Ok (Some (t, e)) =>
      exists k l, e = bpos s k /\ MCand s k l t /\
        forall k' l' t', MCand s k' l' t' ->
          bpos s k' + l' < e + l \/ (bpos s k' + l' = e + l /\ mprio t <= mprio t')
  end.
Proof.
  unfold find_mode.
  pose proof (find_from_spec tbl (main M) (la_of tbl (las M)) la_of_ok (proj1 Mok) s) as H.
  destruct (find_from tbl (main M) (la_of tbl (las M)) s) as [[[t e]|]|]; [| |exact H].
  - destruct H as (k & l & He & (Hk & Ha & Hl) & Hmax). exists k, l. split; [exact He|]. split.
    + split; [exact Hk|split; [exact Ha|apply la_of_spec; exact Hl]].
    + intros k' l' t' (Hk' & Ha' & Hl'). apply la_of_spec in Hl'.
      specialize (Hmax k' l' t' (conj Hk' (conj Ha' Hl'))). unfold le_c in Hmax. cbn [ext tk] in Hmax.
      unfold mprio. exact Hmax.
  - intros k l t (Hk & Ha & Hl). apply la_of_spec in Hl. exact (H k l t (conj Hk (conj Ha Hl))).
Qed.

Corollary find_mode_nonempty s t e : find_mode tbl M s = Ok (Some (t, e)) -> 0 < e <= blen s.
Proof. apply find_from_nonempty; [apply la_of_ok | exact (proj1 Mok)]. Qed.
End M.
