(* CacheProofs.v — proofs about the cache model of Cache.v (C13, C14). *)
From Scnr Require Import Base Json Cache.
Local Open Scope N_scope.

(* ------------------------------------------------------------------------------------------ *)
(* config_eqb decides equality                                                                 *)
(* ------------------------------------------------------------------------------------------ *)

Lemma nlist_eqb_iff a b : nlist_eqb a b = true <-> a = b.
Proof. split; [apply nlist_eqb_eq | intros ->; apply nlist_eqb_refl]. Qed.

Lemma option_eqb_iff {A} (f:A -> A -> bool) :
  (forall x y, f x y = true <-> x = y) -> forall a b, option_eqb f a b = true <-> a = b.
Proof.
  intros Hf [x|] [y|]; cbn; try (split; [discriminate | intros E; discriminate E]).
  - rewrite Hf. split; [intros ->; reflexivity | intros E; injection E; auto].
  - split; reflexivity.
Qed.

Lemma list_eqb_iff {A} (f:A -> A -> bool) :
  (forall x y, f x y = true <-> x = y) -> forall a b, list_eqb f a b = true <-> a = b.
Proof.
  intros Hf a. induction a as [|x a IH]; intros [|y b]; cbn;
    try (split; [discriminate | intros E; discriminate E]).
  - split; reflexivity.
  - rewrite andb_true_iff, Hf, IH. split.
    + intros [-> ->]; reflexivity.
    + intros E; injection E; auto.
Qed.

Lemma bool_eqb_iff a b : Bool.eqb a b = true <-> a = b.
Proof. split; [apply eqb_prop | intros ->; apply eqb_reflx]. Qed.

Lemma lookahead_eqb_iff a b : lookahead_eqb a b = true <-> a = b.
Proof.
  destruct a as [pa ta], b as [pb tb]. unfold lookahead_eqb; cbn.
  rewrite andb_true_iff, bool_eqb_iff, nlist_eqb_iff. split.
  - intros [-> ->]; reflexivity.
  - intros E; injection E; auto.
Qed.

Lemma pattern_eqb_iff a b : pattern_eqb a b = true <-> a = b.
Proof.
  destruct a as [pa ta la], b as [pb tb lb]. unfold pattern_eqb; cbn.
  rewrite !andb_true_iff, nlist_eqb_iff, N.eqb_eq, (option_eqb_iff _ lookahead_eqb_iff). split.
  - intros [[-> ->] ->]; reflexivity.
  - intros E; injection E; auto.
Qed.

Lemma transition_eqb_iff a b : transition_eqb a b = true <-> a = b.
Proof.
  destruct a as [a1 a2], b as [b1 b2]. unfold transition_eqb; cbn.
  rewrite andb_true_iff, !N.eqb_eq. split.
  - intros [-> ->]; reflexivity.
  - intros E; injection E; auto.
Qed.

Lemma mode_eqb_iff a b : mode_eqb a b = true <-> a = b.
Proof.
  destruct a as [na pa ta], b as [nb pb tb]. unfold mode_eqb; cbn.
  rewrite !andb_true_iff, nlist_eqb_iff, (list_eqb_iff _ pattern_eqb_iff),
    (list_eqb_iff _ transition_eqb_iff). split.
  - intros [[-> ->] ->]; reflexivity.
  - intros E; injection E; auto.
Qed.

Lemma config_eqb_iff (a b:config) : config_eqb a b = true <-> a = b.
Proof. apply (list_eqb_iff _ mode_eqb_iff). Qed.

Lemma config_eqb_refl (a:config) : config_eqb a a = true.
Proof. apply config_eqb_iff; reflexivity. Qed.

Lemma config_eqb_neq (a b:config) : config_eqb a b = false <-> a <> b.
Proof.
  split.
  - intros E H. apply config_eqb_iff in H. congruence.
  - intros H. destruct (config_eqb a b) eqn:E; [|reflexivity]. apply config_eqb_iff in E. contradiction.
Qed.

(* each field matters: changing one projection changes the key *)
Lemma config_eqb_fields (a b:config) :
  config_eqb a b = true ->
  map m_name a = map m_name b /\ map m_patterns a = map m_patterns b
  /\ map m_transitions a = map m_transitions b.
Proof. intros H. apply config_eqb_iff in H. subst. auto. Qed.

(* ------------------------------------------------------------------------------------------ *)
(* C13: transparency                                                                           *)
(* ------------------------------------------------------------------------------------------ *)

Section Proofs.
Variable compiled : Type.
Variable compile : config -> option compiled.

Notation cache := (cache compiled).
Notation lookup := (lookup compiled).
Notation build := (build compiled compile).
Notation fold_builds := (fold_builds compiled compile).
Notation cache_ok := (cache_ok compiled compile).
Notation run_schedule := (run_schedule compiled compile).

Lemma lookup_in (c:cache) cfg v : lookup c cfg = Some v -> In (cfg, v) c.
Proof.
  unfold Cache.lookup. induction c as [|[k w] c IH]; cbn; [discriminate|].
  destruct (config_eqb k cfg) eqn:E.
  - apply config_eqb_iff in E. subst. intros H; injection H as ->. auto.
  - auto.
Qed.

Lemma lookup_none (c:cache) cfg : lookup c cfg = None -> forall v, ~ In (cfg, v) c.
Proof.
  unfold Cache.lookup. induction c as [|[k w] c IH]; cbn; [tauto|].
  destruct (config_eqb k cfg) eqn:E; [discriminate|].
  intros H v [I|I]; [|exact (IH H v I)].
  injection I as -> ->. rewrite config_eqb_refl in E. discriminate.
Qed.

Lemma cache_ok_nil : cache_ok [].
Proof. intros k v []. Qed.

(* one build: the result is the uncached result, the invariant is kept, and the cache only grows
   by the built key *)
Lemma build_spec (c:cache) cfg :
  cache_ok c ->
  snd (build c cfg) = compile cfg /\ cache_ok (fst (build c cfg)).
Proof.
  intros OK. unfold Cache.build, build_with. fold (lookup c cfg).
  destruct (lookup c cfg) as [v|] eqn:L.
  - cbn. split; [|exact OK]. symmetry. apply OK. apply lookup_in. exact L.
  - destruct (compile cfg) as [v|] eqn:C; cbn.
    + split; [reflexivity|]. intros k w [I|I]; [injection I as <- <-; exact C | auto].
    + split; [reflexivity | exact OK].
Qed.

Lemma build_result (c:cache) cfg : cache_ok c -> snd (build c cfg) = compile cfg.
Proof. intros OK. apply (build_spec c cfg OK). Qed.
Lemma build_ok (c:cache) cfg : cache_ok c -> cache_ok (fst (build c cfg)).
Proof. intros OK. apply (build_spec c cfg OK). Qed.

(* a failing build returns the error and leaves the cache exactly as it was *)
Lemma build_failing_unchanged (c:cache) cfg :
  cache_ok c -> compile cfg = None -> build c cfg = (c, None).
Proof.
  intros OK C. unfold Cache.build, build_with. fold (lookup c cfg).
  destruct (lookup c cfg) as [v|] eqn:L.
  - apply lookup_in in L. apply OK in L. congruence.
  - rewrite C. reflexivity.
Qed.

(* a successful build adds at most its own key, with the uncached result *)
Lemma build_cache_grows (c:cache) cfg :
  fst (build c cfg) = c \/ exists v, compile cfg = Some v /\ fst (build c cfg) = (cfg, v) :: c.
Proof.
  unfold Cache.build, build_with. fold (lookup c cfg).
  destruct (lookup c cfg) as [v|]; [left; reflexivity|].
  destruct (compile cfg) as [v|] eqn:C; [right; exists v; auto | left; reflexivity].
Qed.

(* no entry is ever dropped or replaced *)
Lemma build_keeps_entries (c:cache) cfg k v : In (k, v) c -> In (k, v) (fst (build c cfg)).
Proof.
  intros I. destruct (build_cache_grows c cfg) as [->|(w & _ & ->)]; [exact I | right; exact I].
Qed.

(* after a successful build the key is present: the next build of an equal configuration is a hit *)
Lemma build_then_hit (c:cache) cfg v :
  cache_ok c -> compile cfg = Some v -> lookup (fst (build c cfg)) cfg = Some v.
Proof.
  intros OK C. unfold Cache.build, build_with. fold (lookup c cfg).
  destruct (lookup c cfg) as [w|] eqn:L.
  - cbn. rewrite L. f_equal. apply lookup_in in L. apply OK in L. congruence.
  - rewrite C. cbn. unfold Cache.lookup. cbn. rewrite config_eqb_refl. reflexivity.
Qed.

Lemma fold_builds_from (cfgs:list config) : forall c:cache,
  cache_ok c ->
  snd (fold_builds c cfgs) = map compile cfgs /\ cache_ok (fst (fold_builds c cfgs)).
Proof.
  unfold Cache.fold_builds.
  induction cfgs as [|cfg rest IH]; intros c OK; cbn [fold_builds_with map].
  - cbn. auto.
  - fold (build c cfg).
    pose proof (build_spec c cfg OK) as [R OK1].
    destruct (build c cfg) as [c1 r] eqn:B. cbn in R, OK1.
    destruct (IH c1 OK1) as [RS OK2].
    destruct (fold_builds_with compiled compile config_eqb c1 rest) as [c2 rs]. cbn in RS, OK2 |- *.
    split; [congruence | exact OK2].
Qed.

(* C13_transparent *)
Theorem fold_builds_transparent (cfgs:list config) :
  let '(c, rs) := fold_builds [] cfgs in
  rs = map compile cfgs /\ (forall k v, In (k, v) c -> compile k = Some v).
Proof.
  pose proof (fold_builds_from cfgs [] cache_ok_nil) as [R OK].
  destruct (fold_builds [] cfgs) as [c rs]. cbn in R, OK. split; [exact R | exact OK].
Qed.

(* ... whatever was built before: from any cache reachable by earlier builds *)
Theorem fold_builds_after_any_history (before cfgs:list config) :
  snd (fold_builds (fst (fold_builds [] before)) cfgs) = map compile cfgs.
Proof.
  apply fold_builds_from. apply (fold_builds_from before [] cache_ok_nil).
Qed.

(* failing builds anywhere in a history leave no trace: removing them changes neither the cache
   nor the results of the other builds *)
Lemma fold_builds_cache_skip_failing (cfgs:list config) : forall c:cache,
  cache_ok c ->
  fst (fold_builds c cfgs)
  = fst (fold_builds c (filter (fun k => match compile k with Some _ => true | None => false end) cfgs)).
Proof.
  unfold Cache.fold_builds.
  induction cfgs as [|cfg rest IH]; intros c OK; cbn [fold_builds_with filter]; [reflexivity|].
  fold (build c cfg).
  destruct (compile cfg) as [v|] eqn:C.
  - cbn [fold_builds_with]. fold (build c cfg).
    pose proof (build_ok c cfg OK) as OK1.
    destruct (build c cfg) as [c1 r]. cbn in OK1.
    specialize (IH c1 OK1).
    destruct (fold_builds_with compiled compile config_eqb c1 rest) as [c2 rs].
    destruct (fold_builds_with compiled compile config_eqb c1 (filter _ rest)) as [c3 rs3].
    cbn in IH |- *. exact IH.
  - rewrite (build_failing_unchanged c cfg OK C).
    specialize (IH c OK).
    destruct (fold_builds_with compiled compile config_eqb c rest) as [c2 rs]. cbn in IH |- *. exact IH.
Qed.

(* ------------------------------------------------------------------------------------------ *)
(* C14: every interleaving of atomic build steps                                               *)
(* ------------------------------------------------------------------------------------------ *)

Lemma pop_spec i : forall rem cfg rem',
  pop i rem = Some (cfg, rem') ->
  nth i rem [] = cfg :: nth i rem' [] /\ (forall j, j <> i -> nth j rem' [] = nth j rem [])
  /\ List.length rem' = List.length rem.
Proof.
  induction i as [|i IH]; intros [|t others] cfg rem' H; cbn in H; try discriminate.
  - destruct t as [|c rest]; [discriminate|]. injection H as <- <-. cbn. repeat split.
    intros [|j] Hj; [congruence | reflexivity].
  - destruct (pop i others) as [[c o']|] eqn:P; [|discriminate]. injection H as <- <-.
    destruct (IH _ _ _ P) as (H1 & H2 & H3). cbn. repeat split; [exact H1 | | congruence].
    intros [|j] Hj; [reflexivity | apply H2; congruence].
Qed.

Lemma all_done_nth rem : all_done rem = true -> forall i, nth i rem [] = [].
Proof.
  unfold all_done. induction rem as [|t rem IH]; cbn; intros H [|i]; try reflexivity.
  - destruct t; [reflexivity | discriminate].
  - destruct t; [apply IH; exact H | discriminate].
Qed.

(* the sequential history of an interleaving, projected on thread i, is thread i's program *)
Lemma linearize_projection sched : forall rem h,
  linearize sched rem = Some h -> forall i, results_of i h = nth i rem [].
Proof.
  unfold results_of.
  induction sched as [|j s IH]; intros rem h H i; cbn in H.
  - destruct (all_done rem) eqn:D; [|discriminate]. injection H as <-. cbn.
    symmetry. apply all_done_nth. exact D.
  - destruct (pop j rem) as [[cfg rem']|] eqn:P; [|discriminate].
    destruct (linearize s rem') as [h'|] eqn:L; [|discriminate]. injection H as <-.
    destruct (pop_spec _ _ _ _ P) as (H1 & H2 & _).
    cbn [filter fst]. destruct (Nat.eqb j i) eqn:E.
    + apply Nat.eqb_eq in E. subst j. cbn [map snd]. rewrite (IH _ _ L i), H1. reflexivity.
    + apply Nat.eqb_neq in E. rewrite (IH _ _ L i). apply H2. congruence.
Qed.

(* on an interleaving the run performs exactly the builds of the sequential history, and every
   step returns the uncached result whatever the cache holds at that moment *)
Lemma run_schedule_trace sched : forall (c:cache) rem h,
  cache_ok c -> linearize sched rem = Some h ->
  snd (run_schedule c sched rem) = map (fun e => (fst e, compile (snd e))) h
  /\ cache_ok (fst (run_schedule c sched rem)).
Proof.
  induction sched as [|j s IH]; intros c rem h OK H; cbn in H |- *.
  - destruct (all_done rem); [|discriminate]. injection H as <-. cbn. auto.
  - destruct (pop j rem) as [[cfg rem']|] eqn:P; [|discriminate].
    destruct (linearize s rem') as [h'|] eqn:L; [|discriminate]. injection H as <-.
    pose proof (build_spec c cfg OK) as [R OK1].
    destruct (build c cfg) as [c1 r]. cbn in R, OK1.
    destruct (IH c1 rem' h' OK1 L) as [T OK2].
    destruct (run_schedule c1 s rem') as [c2 tr]. cbn in T, OK2 |- *.
    split; [congruence | exact OK2].
Qed.

Lemma results_of_map {A B} (f:A -> B) i (h:list (nat * A)) :
  results_of i (map (fun e => (fst e, f (snd e))) h) = map f (results_of i h).
Proof.
  unfold results_of. induction h as [|[j a] h IH]; cbn; [reflexivity|].
  destruct (Nat.eqb j i); cbn; rewrite IH; reflexivity.
Qed.

Lemma map_nth_seq {A B} (f:A -> B) (d:A) (l:list A) :
  map (fun i => f (nth i l d)) (seq 0 (List.length l)) = map f l.
Proof.
  induction l as [|x l IH]; cbn; [reflexivity|].
  f_equal. rewrite <- seq_shift, map_map. exact IH.
Qed.

(* C14_any_schedule *)
Theorem any_schedule (threads:list (list config)) (sched:list nat) :
  interleaving sched threads ->
  results_per_thread (List.length threads) (snd (run_schedule [] sched threads))
  = map (map compile) threads.
Proof.
  intros [h H].
  destruct (run_schedule_trace sched [] threads h cache_ok_nil H) as [T _].
  unfold results_per_thread. rewrite T.
  rewrite <- (map_nth_seq (map compile) [] threads).
  apply map_ext. intros i. rewrite results_of_map. f_equal.
  apply (linearize_projection sched threads h H).
Qed.

(* ... and the cache every thread leaves behind still satisfies the invariant, so the statement
   composes with later (sequential or concurrent) builds *)
Theorem any_schedule_cache_ok (threads:list (list config)) (sched:list nat) :
  interleaving sched threads -> cache_ok (fst (run_schedule [] sched threads)).
Proof.
  intros [h H]. apply (run_schedule_trace sched [] threads h cache_ok_nil H).
Qed.

(* interleavings exist for every set of threads: run the threads one after the other *)
Fixpoint serial_from (i:nat) (threads:list (list config)) : list nat :=
  match threads with
  | [] => []
  | t :: rest => repeat i (List.length t) ++ serial_from (S i) rest
  end.

Lemma pop_skip_done : forall (pre:list (list config)) t rest,
  all_done pre = true ->
  pop (List.length pre) (pre ++ t :: rest)
  = match t with [] => None | cfg :: t' => Some (cfg, pre ++ t' :: rest) end.
Proof.
  induction pre as [|p pre IH]; intros t rest D; cbn.
  - destruct t; reflexivity.
  - cbn in D. destruct p; [|discriminate]. rewrite (IH t rest D). destruct t; reflexivity.
Qed.

Lemma all_done_app a b : all_done (a ++ b) = all_done a && all_done b.
Proof. unfold all_done. apply forallb_app. Qed.

Lemma serial_interleaving_gen : forall (rest pre:list (list config)),
  all_done pre = true ->
  exists h, linearize (serial_from (List.length pre) rest) (pre ++ rest) = Some h.
Proof.
  induction rest as [|t rest IH]; intros pre D; cbn [serial_from].
  - cbn. rewrite app_nil_r, D. eauto.
  - induction t as [|cfg t IHt].
    + cbn [List.length repeat app].
      specialize (IH (pre ++ [[]])). rewrite app_length in IH. cbn in IH.
      rewrite Nat.add_1_r, <- app_assoc in IH. cbn in IH. apply IH.
      rewrite all_done_app, D. reflexivity.
    + cbn [List.length repeat app linearize].
      rewrite (pop_skip_done pre (cfg :: t) rest D).
      destruct IHt as [h Hh]. rewrite Hh. cbn. eauto.
Qed.

Theorem serial_is_interleaving (threads:list (list config)) :
  interleaving (serial_from 0 threads) threads.
Proof. apply (serial_interleaving_gen threads [] eq_refl). Qed.

End Proofs.

(* ------------------------------------------------------------------------------------------ *)
(* the key must be the whole configuration: with a key equality that ignores lookaheads the     *)
(* cache is NOT transparent (sensitivity of the theorem to its premise)                         *)
(* ------------------------------------------------------------------------------------------ *)

Definition ex_la (pos:bool) (p:list N) : option lookahead :=
  Some {| la_positive := pos; la_pattern := p |}.
Definition ex_pat (p:list N) (t:N) (la:option lookahead) : pattern :=
  {| p_pattern := p; p_token := t; p_lookahead := la |}.
Definition ex_mode (name:list N) (ps:list pattern) (tr:list (N * N)) : mode :=
  {| m_name := name; m_patterns := ps; m_transitions := tr |}.

(* base: mode "M" with a(?=b)#1, c#2, transition 1 -> 0 *)
Definition ex_base : config :=
  [ex_mode [77] [ex_pat [97] 1 (ex_la true [98]); ex_pat [99] 2 None] [(1, 0)]].
Definition ex_token : config :=
  [ex_mode [77] [ex_pat [97] 3 (ex_la true [98]); ex_pat [99] 2 None] [(1, 0)]].
Definition ex_order : config :=
  [ex_mode [77] [ex_pat [99] 2 None; ex_pat [97] 1 (ex_la true [98])] [(1, 0)]].
Definition ex_no_la : config :=
  [ex_mode [77] [ex_pat [97] 1 None; ex_pat [99] 2 None] [(1, 0)]].
Definition ex_polarity : config :=
  [ex_mode [77] [ex_pat [97] 1 (ex_la false [98]); ex_pat [99] 2 None] [(1, 0)]].
Definition ex_la_pattern : config :=
  [ex_mode [77] [ex_pat [97] 1 (ex_la true [99]); ex_pat [99] 2 None] [(1, 0)]].
Definition ex_transition : config :=
  [ex_mode [77] [ex_pat [97] 1 (ex_la true [98]); ex_pat [99] 2 None] [(2, 0)]].
Definition ex_no_transition : config :=
  [ex_mode [77] [ex_pat [97] 1 (ex_la true [98]); ex_pat [99] 2 None] []].
Definition ex_name : config :=
  [ex_mode [78] [ex_pat [97] 1 (ex_la true [98]); ex_pat [99] 2 None] [(1, 0)]].
Definition ex_pattern_text : config :=
  [ex_mode [77] [ex_pat [97; 97] 1 (ex_la true [98]); ex_pat [99] 2 None] [(1, 0)]].
Definition ex_variants : list config :=
  [ex_token; ex_order; ex_no_la; ex_polarity; ex_la_pattern; ex_transition; ex_no_transition;
   ex_name; ex_pattern_text].

Lemma near_identical_distinct :
  forallb (fun v => negb (config_eqb ex_base v) && negb (config_eqb v ex_base)) ex_variants = true
  /\ config_eqb ex_base ex_base = true.
Proof. vm_compute. split; reflexivity. Qed.

Lemma near_identical_distinct_prop : Forall (fun v => v <> ex_base) ex_variants.
Proof.
  repeat constructor; intros E; apply config_eqb_iff in E; vm_compute in E; discriminate.
Qed.

(* a coarser key breaks transparency: `compile` = identity; base, then the variant that differs
   in the lookahead polarity only *)
Lemma coarse_key_not_transparent :
  snd (fold_builds_with config (fun k => Some k) config_eqb_nola [] [ex_base; ex_polarity])
  <> map (fun k => Some k) [ex_base; ex_polarity].
Proof. vm_compute. intros E. discriminate E. Qed.

(* non-vacuity of C14: a genuine interleaving of two threads in which a step of thread 1 falls
   between two steps of thread 0 and a failing build sits between two successful ones *)
Definition ex_compile (k:config) : option N :=
  if config_eqb k ex_base then Some 7 else if config_eqb k ex_token then Some 8 else None.
Definition ex_threads : list (list config) := [[ex_base; ex_no_la; ex_base]; [ex_token; ex_base]].
Definition ex_sched : list nat := [0; 1; 0; 1; 0]%nat.

Lemma example_interleaving : interleaving ex_sched ex_threads.
Proof. unfold interleaving. vm_compute. eauto. Qed.

Lemma example_schedule_results :
  results_per_thread 2 (snd (run_schedule N ex_compile [] ex_sched ex_threads))
  = [[Some 7; None; Some 7]; [Some 8; Some 7]].
Proof. vm_compute. reflexivity. Qed.

Lemma example_not_interleaving : ~ interleaving [0; 0; 0; 0]%nat ex_threads.
Proof. intros [h H]. vm_compute in H. discriminate. Qed.

(* non-vacuity of the premises of build_failing_unchanged / build_then_hit *)
Lemma example_failing_premises :
  cache_ok N ex_compile (fst (build N ex_compile [] ex_base)) /\ ex_compile ex_no_la = None
  /\ build N ex_compile (fst (build N ex_compile [] ex_base)) ex_no_la = ([(ex_base, 7)], None).
Proof.
  split; [apply build_ok; apply cache_ok_nil|]. vm_compute. split; reflexivity.
Qed.

Lemma example_hit_premises :
  cache_ok N ex_compile [] /\ ex_compile ex_base = Some 7
  /\ is_hit N (fst (build N ex_compile [] ex_base)) ex_base = true
  /\ is_hit N (fst (build N ex_compile [] ex_base)) ex_polarity = false.
Proof. split; [apply cache_ok_nil|]. vm_compute. repeat split; reflexivity. Qed.
