(* IterProofs.v — the iterator state machine (Iter.v) refines an abstract scan over the suffix of
   the input at an absolute byte offset. Generic in the scanner `sc` (the compiled automata or
   the specification); everything is proved for every input, every state satisfying the
   representation invariant, hence (by induction over histories) for every call history. *)
From Scnr Require Import Base Automaton FindFrom Iter.

(* ---------- bytes and suffixes ---------- *)
Lemma drop_bytes_0 s : drop_bytes 0 s = Some s.
Proof. destruct s; reflexivity. Qed.

Lemma drop_bytes_blen o s r : drop_bytes o s = Some r -> blen s = o + blen r.
Proof.
  revert o. induction s as [|c s IH]; intros o H.
  - destruct o; cbn in H; [inversion H; reflexivity|discriminate].
  - destruct o as [|o'].
    + cbn in H. inversion H. reflexivity.
    + cbn [drop_bytes] in H. destruct (len_utf8 c <=? S o') eqn:E; [|discriminate].
      apply Nat.leb_le in E. apply IH in H. cbn [blen]. lia.
Qed.

Lemma drop_bytes_cons c s : drop_bytes (len_utf8 c) (c :: s) = Some s.
Proof.
  pose proof (len_utf8_pos c) as Hp. destruct (len_utf8 c) as [|n] eqn:E; [lia|].
  cbn [drop_bytes]. rewrite E. rewrite Nat.leb_refl, Nat.sub_diag. apply drop_bytes_0.
Qed.

Lemma drop_bytes_add a b s r1 r2 :
  drop_bytes a s = Some r1 -> drop_bytes b r1 = Some r2 -> drop_bytes (a + b) s = Some r2.
Proof.
  revert a. induction s as [|c s IH]; intros a H1 H2.
  - destruct a; cbn in H1; [|discriminate]. inversion H1; subst. exact H2.
  - destruct a as [|a'].
    + cbn in H1. inversion H1; subst. exact H2.
    + cbn [drop_bytes] in H1. destruct (len_utf8 c <=? S a') eqn:E; [|discriminate].
      apply Nat.leb_le in E. pose proof (len_utf8_pos c).
      replace (S a' + b) with (S (a' + b)) by lia. cbn [drop_bytes].
      assert (E2 : len_utf8 c <=? S (a' + b) = true) by (apply Nat.leb_le; lia). rewrite E2.
      replace (S (a' + b) - len_utf8 c) with ((S a' - len_utf8 c) + b) by lia.
      apply IH; assumption.
Qed.

Lemma drop_bytes_step p c s input :
  drop_bytes p input = Some (c :: s) -> drop_bytes (p + len_utf8 c) input = Some s.
Proof. intros H. eapply drop_bytes_add; [exact H|apply drop_bytes_cons]. Qed.

Lemma drop_bytes_pos_consumes e s r : 0 < e -> drop_bytes e s = Some r -> length r < length s.
Proof.
  revert e r. induction s as [|c s IH]; intros e r He H.
  - destruct e; [lia|cbn in H; discriminate].
  - destruct e as [|e']; [lia|]. cbn [drop_bytes] in H.
    destruct (len_utf8 c <=? S e') eqn:E; [|discriminate].
    destruct (S e' - len_utf8 c) as [|k] eqn:Ek.
    + rewrite drop_bytes_0 in H. inversion H; subst. cbn. lia.
    + apply IH in H; [|lia]. cbn. lia.
Qed.

Lemma drop_bytes_all s : drop_bytes (blen s) s = Some [].
Proof.
  induction s as [|c s IH]; [reflexivity|]. cbn [blen].
  eapply drop_bytes_add; [apply drop_bytes_cons|exact IH].
Qed.

(* ---------- sorted line vector ---------- *)
Lemma strictly_sorted_tail x l : strictly_sorted (x :: l) = true -> strictly_sorted l = true.
Proof. destruct l as [|y l]; cbn; [reflexivity|]. intros H. apply andb_true_iff in H. tauto. Qed.

Lemma strictly_sorted_cons_iff x l :
  strictly_sorted (x :: l) = true <-> (forall y, In y l -> x < y) /\ strictly_sorted l = true.
Proof.
  revert x. induction l as [|y l IH]; intros x.
  - cbn. split; [intros _; split; [intros y []|reflexivity] | reflexivity].
  - cbn [strictly_sorted]. fold (strictly_sorted (y :: l)). rewrite andb_true_iff, Nat.ltb_lt. split.
    + intros [Hxy Hs]. split; [|exact Hs]. intros z [<-|Hz]; [exact Hxy|].
      apply IH in Hs as [Hy _]. specialize (Hy z Hz). lia.
    + intros [Hall Hs]. split; [apply Hall; left; reflexivity|exact Hs].
Qed.

Lemma insert_sorted x l : strictly_sorted l = true -> strictly_sorted (insert x l) = true.
Proof.
  induction l as [|y l IH]; intros H; [reflexivity|]. cbn [insert].
  destruct (x <? y) eqn:E1.
  - apply Nat.ltb_lt in E1. apply strictly_sorted_cons_iff. split; [|exact H].
    intros z [<-|Hz]; [exact E1|]. apply strictly_sorted_cons_iff in H as [Hy _]. specialize (Hy z Hz). lia.
  - destruct (x =? y) eqn:E2; [exact H|].
    apply Nat.ltb_ge in E1. apply Nat.eqb_neq in E2.
    apply strictly_sorted_cons_iff in H as [Hy Hs]. apply strictly_sorted_cons_iff. split.
    + intros z Hz. apply insert_in in Hz as [->|Hz]; [lia|apply Hy; exact Hz].
    + apply IH; exact Hs.
Qed.

Lemma fold_insert_sorted new : forall l, strictly_sorted l = true ->
  strictly_sorted (fold_left (fun acc x => insert x acc) new l) = true.
Proof. induction new as [|x new IH]; intros l H; cbn [fold_left]; [exact H|]. apply IH, insert_sorted, H. Qed.

(* the line vector: strictly ascending and starting with 0 *)
Definition lines_ok (l:list nat) : Prop := strictly_sorted l = true /\ exists t, l = 0 :: t.

Lemma insert_head0 x t : exists t', insert x (0 :: t) = 0 :: t'.
Proof. cbn [insert]. destruct x as [|x]; cbn; eauto. Qed.
Lemma fold_insert_head0 new : forall t, exists t', fold_left (fun acc x => insert x acc) new (0 :: t) = 0 :: t'.
Proof.
  induction new as [|x new IH]; intros t; cbn [fold_left]; [eauto|].
  destruct (insert_head0 x t) as (t1 & E). rewrite E. apply IH.
Qed.

Lemma merge_ok lines new : lines_ok lines ->
  exists l', merge_line_offsets lines new = Ok l' /\ lines_ok l'.
Proof.
  intros (H & t & ->). unfold merge_line_offsets. rewrite H. eexists. split; [reflexivity|]. split.
  - apply fold_insert_sorted, H.
  - apply fold_insert_head0.
Qed.

Section IP.
Variable sc : scanner.
Variable nmodes : nat.

(* what the iterator needs from the scanner: no panic for existing modes, matches are
   non-empty and end on a character boundary inside the haystack, transitions lead to
   existing modes *)
Definition sc_ok : Prop :=
  (forall m s, m < nmodes -> sc_find sc m s <> Panic) /\
  (forall m s t e, sc_find sc m s = Ok (Some (t, e)) -> 0 < e /\ exists r, drop_bytes e s = Some r) /\
  (forall m, m < nmodes -> exists tr, sc_trans sc m = Ok tr /\
                                      forall t m', has_transition tr t = Some m' -> m' < nmodes).
Hypothesis Hsc : sc_ok.

(* absolute byte position of the cursor *)
Definition apos (st:iter) : nat := it_offset st + it_rel st.

(* representation invariant *)
Definition RInv (st:iter) : Prop :=
  drop_bytes (apos st) (it_input st) = Some (it_rest st) /\
  lines_ok (it_lines st) /\
  it_mode st < nmodes.

Lemma RInv_cursor st : RInv st -> blen (it_input st) - blen (it_rest st) = apos st.
Proof. intros (H & _). apply drop_bytes_blen in H. lia. Qed.

Lemma find_iter_RInv sm input : 0 < nmodes -> RInv (find_iter sm input).
Proof. intros H. unfold RInv, apos, lines_ok. cbn. rewrite drop_bytes_0. eauto 6. Qed.

(* ---------- advance_to ---------- *)
Lemma advance_loop_lands offset pos : forall rest rel lc newp starts s',
  rel < pos -> drop_bytes (pos - rel) rest = Some s' ->
  exists lc' newp' starts',
    advance_loop offset pos rest rel lc newp starts = (s', pos, lc', newp', starts').
Proof.
  induction rest as [|c rest IH]; intros rel lc newp starts s' Hlt Hd.
  - destruct (pos - rel) eqn:E; [lia|cbn in Hd; discriminate].
  - cbn [advance_loop].
    destruct (pos - rel) as [|k] eqn:E; [lia|]. cbn [drop_bytes] in Hd.
    destruct (len_utf8 c <=? S k) eqn:El; [|discriminate]. apply Nat.leb_le in El.
    destruct (pos <=? rel + len_utf8 c) eqn:Ep.
    + apply Nat.leb_le in Ep. assert (rel + len_utf8 c = pos) by lia.
      replace (S k - len_utf8 c) with 0 in Hd by lia. rewrite drop_bytes_0 in Hd. inversion Hd; subst.
      do 3 eexists. reflexivity.
    + apply Nat.leb_gt in Ep.
      apply IH; [lia|]. replace (pos - (rel + len_utf8 c)) with (S k - len_utf8 c) by lia. exact Hd.
Qed.

(* advancing to a boundary beyond the cursor lands exactly there *)
Lemma advance_to_lands st target s' :
  RInv st -> apos st < target -> drop_bytes (target - apos st) (it_rest st) = Some s' ->
  exists st' r, advance_to st target = Ok (st', r) /\
    it_rest st' = s' /\ apos st' = target /\ RInv st' /\
    it_mode st' = it_mode st /\ it_input st' = it_input st /\ it_offset st' = it_offset st.
Proof.
  intros HI Hlt Hd. pose proof (RInv_cursor st HI) as Hc. destruct HI as (Hs & Hl & Hm).
  unfold advance_to. rewrite Hc.
  assert (E : target <=? apos st = false) by (apply Nat.leb_gt; exact Hlt). rewrite E.
  unfold apos in *.
  destruct (advance_loop_lands (it_offset st) (target - it_offset st) (it_rest st) (it_rel st)
              (it_last_char st) 0 [] s') as (lc' & newp' & starts' & EL).
  { lia. } { replace (target - it_offset st - it_rel st) with (target - (it_offset st + it_rel st)) by lia. exact Hd. }
  rewrite EL.
  assert (HL : exists l', match starts' with [] => Ok (it_lines st) | _ => merge_line_offsets (it_lines st) starts' end = Ok l'
                          /\ lines_ok l').
  { destruct starts'; [eexists; split; [reflexivity|exact Hl]|]. apply merge_ok, Hl. }
  destruct HL as (l' & EL' & Hl'). rewrite EL'.
  do 2 eexists. split; [reflexivity|].
  assert (Hpos : it_offset st + (target - it_offset st) = target) by lia.
  assert (Hdrop : drop_bytes target (it_input st) = Some s').
  { replace target with ((it_offset st + it_rel st) + (target - (it_offset st + it_rel st))) by lia.
    eapply drop_bytes_add; [exact Hs|exact Hd]. }
  cbn. split; [reflexivity|]. split; [exact Hpos|]. split.
  - unfold RInv, apos. cbn. rewrite Hpos. auto.
  - auto.
Qed.

(* a position that is not beyond the cursor leaves the iterator untouched *)
Lemma advance_to_noop st target : RInv st -> target <= apos st ->
  advance_to st target = Ok (st, it_last_position st).
Proof.
  intros HI Hle. unfold advance_to. rewrite (RInv_cursor st HI).
  assert (E : target <=? apos st = true) by (apply Nat.leb_le; exact Hle). rewrite E. reflexivity.
Qed.

(* ---------- record_line_offset ---------- *)
Lemma record_ok st i c : RInv st ->
  exists st', record_line_offset st i c = Ok st' /\ RInv st' /\
    it_mode st' = it_mode st /\ it_rest st' = it_rest st /\ it_rel st' = it_rel st /\
    it_offset st' = it_offset st /\ it_input st' = it_input st.
Proof.
  intros (Hs & Hl & Hm). unfold record_line_offset. destruct (N.eqb (it_last_char st) NL).
  - destruct (merge_ok (it_lines st) [i] Hl) as (l' & E & Hl'). rewrite E.
    eexists. split; [reflexivity|]. unfold RInv, apos. cbn. auto 10.
  - eexists. split; [reflexivity|]. unfold RInv, apos. cbn. auto 10.
Qed.

(* ---------- the abstract scan ---------- *)
(* one call of next on the suffix s at absolute position p in mode m:
   (new mode, new position, new suffix, token) *)
Fixpoint anext (fuel:nat) (m p:nat) (s:list N) : res (nat * nat * list N * option tokn) :=
  match fuel with
  | 0 => Panic
  | S f =>
      match sc_find sc m s with
      | Panic => Panic
      | Ok (Some (t, e)) =>
          match sc_trans sc m, drop_bytes e s with
          | Ok tr, Some s' =>
              Ok (match has_transition tr t with Some m' => m' | None => m end, p + e, s', Some (t, p, p + e))
          | _, _ => Panic
          end
      | Ok None =>
          match s with
          | [] => Ok (m, p, [], None)
          | c :: s' => anext f m (p + len_utf8 c) s'
          end
      end
  end.

Lemma next_loop_spec : forall fuel st, RInv st -> length (it_rest st) < fuel ->
  match anext fuel (it_mode st) (apos st) (it_rest st) with
  | Panic => False
  | Ok (m', p', s', tok) =>
      exists st', next_loop sc fuel st = Ok (st', tok) /\ RInv st' /\
        it_mode st' = m' /\ apos st' = p' /\ it_rest st' = s' /\ it_input st' = it_input st
  end.
Proof.
  destruct Hsc as (Hnp & Hfind & Htr).
  induction fuel as [|f IH]; intros st HI Hf; [lia|].
  cbn [anext next_loop]. unfold peek_from, mode_has_transition.
  pose proof HI as (Hs & Hl & Hm).
  pose proof (Hnp (it_mode st) (it_rest st) Hm) as Hnp'.
  destruct (sc_find sc (it_mode st) (it_rest st)) as [[[t e]|]|] eqn:Ef; [| |congruence].
  - (* a match *)
    destruct (Hfind _ _ _ _ Ef) as (He & r & Hr).
    destruct (Htr _ Hm) as (tr & Etr & Htgt). rewrite Etr, Hr.
    assert (E0 : e =? 0 = false) by (apply Nat.eqb_neq; lia). rewrite E0.
    set (st1 := match has_transition tr t with Some m => set_mode st m | None => st end).
    assert (HI1 : RInv st1 /\ it_rest st1 = it_rest st /\ apos st1 = apos st /\ it_input st1 = it_input st
                  /\ it_offset st1 = it_offset st /\ it_rel st1 = it_rel st
                  /\ it_mode st1 = match has_transition tr t with Some m' => m' | None => it_mode st end).
    { unfold st1. destruct (has_transition tr t) as [m'|] eqn:Eh.
      - split; [unfold RInv, apos; cbn; split; [exact Hs|split; [exact Hl|eapply Htgt; eauto]]|]. cbn. auto 10.
      - split; [exact HI|]. auto 10. }
    destruct HI1 as (HI1 & Hr1 & Hp1 & Hin1 & Ho1 & Hrel1 & Hm1).
    destruct (advance_to_lands st1 (it_rel st + e + it_offset st) r HI1) as (st2 & ret & Ea & Hr2 & Hp2 & HI2 & Hm2 & Hin2 & Ho2).
    { rewrite Hp1. unfold apos. lia. }
    { rewrite Hp1, Hr1. unfold apos. replace (it_rel st + e + it_offset st - (it_offset st + it_rel st)) with e by lia. exact Hr. }
    rewrite Ea. exists st2. split.
    + replace (it_rel st + it_offset st) with (apos st) by (unfold apos; lia).
      replace (it_rel st + e + it_offset st) with (apos st + e) by (unfold apos; lia). reflexivity.
    + split; [exact HI2|]. split; [rewrite Hm2, Hm1; reflexivity|].
      split; [rewrite Hp2; unfold apos; lia|]. split; [exact Hr2|congruence].
  - (* no match here *)
    destruct (it_rest st) as [|c rest'] eqn:Er.
    + destruct (record_ok st (blen (it_input st)) 0%N HI) as (st' & E & HI' & Hm' & Hr' & Hrel' & Ho' & Hin').
      rewrite E. exists st'. split; [reflexivity|]. split; [exact HI'|]. split; [exact Hm'|].
      split; [unfold apos; congruence|]. split; [congruence|exact Hin'].
    + set (st0 := set_rest st rest' (it_rel st + len_utf8 c)).
      assert (HI0 : RInv st0).
      { unfold RInv, apos, st0. cbn. split; [|split; [exact Hl|exact Hm]].
        replace (it_offset st + (it_rel st + len_utf8 c)) with (it_offset st + it_rel st + len_utf8 c) by lia.
        eapply drop_bytes_step. exact Hs. }
      destruct (record_ok st0 (it_rel st + it_offset st) c HI0) as (st1 & E & HI1 & Hm1 & Hr1 & Hrel1 & Ho1 & Hin1).
      rewrite E.
      assert (Hf1 : length (it_rest st1) < f). { rewrite Hr1. unfold st0. cbn. cbn in Hf. lia. }
      specialize (IH st1 HI1 Hf1).
      assert (Eq : anext f (it_mode st1) (apos st1) (it_rest st1) = anext f (it_mode st) (apos st + len_utf8 c) rest').
      { rewrite Hm1, Hr1. unfold apos. rewrite Ho1, Hrel1. unfold st0. cbn. f_equal. lia. }
      rewrite Eq in IH.
      destruct (anext f (it_mode st) (apos st + len_utf8 c) rest') as [[[[m' p'] s'] tok]|]; [|exact IH].
      destruct IH as (st' & En & HI' & A & B & C & D). exists st'.
      split; [exact En|]. split; [exact HI'|]. split; [exact A|]. split; [exact B|]. split; [exact C|].
      rewrite D, Hin1. reflexivity.
Qed.

Theorem next_match_spec st : RInv st ->
  match anext (S (length (it_rest st))) (it_mode st) (apos st) (it_rest st) with
  | Panic => False
  | Ok (m', p', s', tok) =>
      exists st', next_match sc st = Ok (st', tok) /\ RInv st' /\
        it_mode st' = m' /\ apos st' = p' /\ it_rest st' = s' /\ it_input st' = it_input st
  end.
Proof. intros HI. apply next_loop_spec; [exact HI|lia]. Qed.

(* ---------- facts about the abstract scan ---------- *)
(* a token starts at or after the cursor, is not empty, ends where the new cursor is, and the
   new suffix is the input from there *)
Lemma anext_token : forall fuel m p s m' p' s' t a b input,
  drop_bytes p input = Some s ->
  anext fuel m p s = Ok (m', p', s', Some (t, a, b)) ->
  p <= a /\ a < b /\ b = p' /\ drop_bytes p' input = Some s' /\
  (exists sa, drop_bytes a input = Some sa /\ sc_find sc m sa = Ok (Some (t, b - a))) /\
  (exists tr, sc_trans sc m = Ok tr /\ m' = match has_transition tr t with Some x => x | None => m end).
Proof.
  destruct Hsc as (_ & Hfind & _).
  induction fuel as [|f IH]; intros m p s m' p' s' t a b input Hd H; [discriminate|].
  cbn [anext] in H. destruct (sc_find sc m s) as [[[t0 e]|]|] eqn:Ef; [| |discriminate].
  - destruct (sc_trans sc m) as [tr|] eqn:Et; [|discriminate].
    destruct (drop_bytes e s) as [r|] eqn:Er; [|discriminate].
    inversion H; subst. destruct (Hfind _ _ _ _ Ef) as (He & _).
    repeat split; try lia.
    + eapply drop_bytes_add; eauto.
    + exists s. split; [exact Hd|]. replace (a + e - a) with e by lia. exact Ef.
    + exists tr. auto.
  - destruct s as [|c s0]; [discriminate|].
    specialize (IH m (p + len_utf8 c) s0 m' p' s' t a b input (drop_bytes_step _ _ _ _ Hd) H).
    destruct IH as (A & B & C & D & E & F). repeat split; auto. lia.
Qed.

(* no token: the input is exhausted, the cursor is at its end, the mode is unchanged *)
Lemma anext_none : forall fuel m p s m' p' s' input,
  drop_bytes p input = Some s ->
  anext fuel m p s = Ok (m', p', s', None) -> m' = m /\ s' = [] /\ p' = blen input.
Proof.
  induction fuel as [|f IH]; intros m p s m' p' s' input Hd H; [discriminate|].
  cbn [anext] in H. destruct (sc_find sc m s) as [[[t0 e]|]|]; [| |discriminate].
  - destruct (sc_trans sc m); [|discriminate]. destruct (drop_bytes e s); discriminate.
  - destruct s as [|c s0].
    + inversion H; subst. apply drop_bytes_blen in Hd. cbn in Hd. repeat split; lia.
    + eapply IH; [|exact H]. eapply drop_bytes_step; eauto.
Qed.

(* on an exhausted input next keeps returning None *)
Lemma anext_nil fuel m p : m < nmodes -> anext (S fuel) m p [] = Ok (m, p, [], None).
Proof.
  destruct Hsc as (Hnp & Hfind & _). intros Hm. cbn [anext].
  pose proof (Hnp m [] Hm). destruct (sc_find sc m []) as [[[t e]|]|] eqn:Ef; [|reflexivity|congruence].
  destruct (Hfind _ _ _ _ Ef) as (He & r & Hr). destruct e; [lia|cbn in Hr; discriminate].
Qed.

(* ---------- set_offset ---------- *)
Lemma set_offset_spec st o rest : RInv st ->
  drop_bytes (Nat.min o (blen (it_input st))) (it_input st) = Some rest ->
  exists st', set_offset st o = Ok st' /\ RInv st' /\ apos st' = Nat.min o (blen (it_input st)) /\
    it_rest st' = rest /\ it_mode st' = it_mode st /\ it_input st' = it_input st /\ it_lines st' = it_lines st.
Proof.
  intros (Hs & Hl & Hm) Hd. unfold set_offset. rewrite Hd. eexists. split; [reflexivity|].
  unfold RInv, apos. cbn. rewrite Nat.add_0_r. auto 10.
Qed.

(* an offset beyond the end is clamped: it always succeeds *)
Lemma set_offset_beyond st o : RInv st -> blen (it_input st) <= o ->
  exists st', set_offset st o = Ok st' /\ RInv st' /\ apos st' = blen (it_input st) /\ it_rest st' = [] /\
    it_mode st' = it_mode st.
Proof.
  intros HI Ho. destruct (set_offset_spec st o [] HI) as (st' & E & HI' & A & B & C & _).
  - rewrite Nat.min_r by exact Ho. apply drop_bytes_all.
  - exists st'. rewrite Nat.min_r in A by exact Ho. auto.
Qed.

(* ---------- peek_n ---------- *)
Lemma skip_to_lands : forall rest rel e s', rel < e -> drop_bytes (e - rel) rest = Some s' ->
  skip_to e rest rel = (s', e).
Proof.
  induction rest as [|c rest IH]; intros rel e s' Hlt Hd.
  - destruct (e - rel) eqn:E; [lia|cbn in Hd; discriminate].
  - cbn [skip_to]. destruct (e - rel) as [|k] eqn:E; [lia|]. cbn [drop_bytes] in Hd.
    destruct (len_utf8 c <=? S k) eqn:El; [|discriminate]. apply Nat.leb_le in El.
    destruct (e <=? rel + len_utf8 c) eqn:Ep.
    + apply Nat.leb_le in Ep. assert (rel + len_utf8 c = e) by lia.
      replace (S k - len_utf8 c) with 0 in Hd by lia. rewrite drop_bytes_0 in Hd. inversion Hd; subst; f_equal; lia.
    + apply Nat.leb_gt in Ep. apply IH; [lia|].
      replace (e - (rel + len_utf8 c)) with (S k - len_utf8 c) by lia. exact Hd.
Qed.

(* the search of peek_n for the next token is the abstract scan without the mode switch *)
Lemma peek_find_spec : forall fuel mode offset rest rel, mode < nmodes -> length rest < fuel ->
  match peek_find sc fuel mode rest rel with
  | Panic => False
  | Ok (None, _, _) =>
      exists m' p', anext fuel mode (offset + rel) rest = Ok (m', p', [], None)
  | Ok (Some (t, a, b), rest1, rel1) =>
      exists m' s', anext fuel mode (offset + rel) rest = Ok (m', b + offset, s', Some (t, a + offset, b + offset)) /\
        rel1 = a /\ a < b /\ drop_bytes (b - a) rest1 = Some s'
  end.
Proof.
  destruct Hsc as (Hnp & Hfind & Htr).
  induction fuel as [|f IH]; intros mode offset rest rel Hm Hf; [lia|].
  cbn [peek_find anext]. unfold peek_from.
  pose proof (Hnp mode rest Hm) as Hnp'.
  destruct (sc_find sc mode rest) as [[[t e]|]|] eqn:Ef; [| |congruence].
  - destruct (Hfind _ _ _ _ Ef) as (He & r & Hr). destruct (Htr _ Hm) as (tr & Etr & _).
    assert (E0 : e =? 0 = false) by (apply Nat.eqb_neq; lia). rewrite E0, Etr, Hr.
    do 2 eexists. split; [|split; [reflexivity|split; [lia|]]].
    + replace (offset + rel + e) with (rel + e + offset) by lia.
      replace (offset + rel) with (rel + offset) by lia. reflexivity.
    + replace (rel + e - rel) with e by lia. exact Hr.
  - destruct rest as [|c rest']; [do 2 eexists; reflexivity|].
    specialize (IH mode offset rest' (rel + len_utf8 c) Hm). cbn in Hf.
    replace (offset + (rel + len_utf8 c)) with (offset + rel + len_utf8 c) in IH by lia.
    apply IH. lia.
Qed.

(* ---------- advance_to with an arbitrary position never panics and keeps the invariant ---------- *)
Lemma advance_loop_general offset pos : forall rest rel lc newp starts,
  exists rest' rel' lc' newp' starts',
    advance_loop offset pos rest rel lc newp starts = (rest', rel', lc', newp', starts') /\
    rel <= rel' /\ drop_bytes (rel' - rel) rest = Some rest'.
Proof.
  induction rest as [|c rest IH]; intros rel lc newp starts.
  - do 5 eexists. cbn. split; [reflexivity|]. rewrite Nat.sub_diag. auto.
  - cbn [advance_loop]. destruct (pos <=? rel + len_utf8 c).
    + do 5 eexists. split; [reflexivity|]. split; [lia|].
      replace (rel + len_utf8 c - rel) with (len_utf8 c) by lia. apply drop_bytes_cons.
    + destruct (IH (rel + len_utf8 c) c rel (if N.eqb lc NL then starts ++ [rel + offset] else starts))
        as (r' & rel' & lc' & np' & st' & E & Hle & Hd).
      do 5 eexists. split; [exact E|]. split; [lia|].
      replace (rel' - rel) with (len_utf8 c + (rel' - (rel + len_utf8 c))) by lia.
      eapply drop_bytes_add; [apply drop_bytes_cons|exact Hd].
Qed.

Lemma advance_to_total st p : RInv st ->
  exists st' r, advance_to st p = Ok (st', r) /\ RInv st' /\ it_mode st' = it_mode st /\
    it_input st' = it_input st /\ apos st <= apos st'.
Proof.
  intros HI. pose proof HI as (Hs & Hl & Hm). unfold advance_to.
  destruct (p <=? blen (it_input st) - blen (it_rest st)).
  - do 2 eexists. split; [reflexivity|]. auto.
  - destruct (advance_loop_general (it_offset st) (p - it_offset st) (it_rest st) (it_rel st) (it_last_char st) 0 [])
      as (r' & rel' & lc' & np' & st' & E & Hle & Hd). rewrite E.
    assert (HL : exists l', match st' with [] => Ok (it_lines st) | _ => merge_line_offsets (it_lines st) st' end = Ok l'
                            /\ lines_ok l').
    { destruct st'; [eexists; split; [reflexivity|exact Hl]|]. apply merge_ok, Hl. }
    destruct HL as (l' & EL' & Hl'). rewrite EL'.
    do 2 eexists. split; [reflexivity|]. unfold RInv, apos in *. cbn. split; [|split; [reflexivity|split; [reflexivity|lia]]].
    split; [|split; [exact Hl'|exact Hm]].
    replace (it_offset st + rel') with (it_offset st + it_rel st + (rel' - it_rel st)) by lia.
    eapply drop_bytes_add; [exact Hs|exact Hd].
Qed.

(* ---------- position never panics: the line vector starts with 0 ---------- *)
Lemma position_total st o : RInv st -> exists l c, position st o = Ok (l, c).
Proof.
  intros (_ & (_ & t & E) & _). unfold position. rewrite E. cbn [count_le]. cbn. eauto.
Qed.

(* next never changes the offset of the last reset *)
Lemma advance_to_offset st p st' r : advance_to st p = Ok (st', r) -> it_offset st' = it_offset st.
Proof.
  unfold advance_to. destruct (p <=? _).
  - intros H; inversion H; reflexivity.
  - destruct (advance_loop _ _ _ _ _ _ _) as [[[[r1 rl1] lc1] np1] sts1].
    destruct (match sts1 with [] => _ | _ => _ end); [|discriminate]. intros H; inversion H; reflexivity.
Qed.
Lemma record_offset st i c st' : record_line_offset st i c = Ok st' -> it_offset st' = it_offset st.
Proof.
  unfold record_line_offset. destruct (N.eqb _ _).
  - destruct (merge_line_offsets _ _); [|discriminate]. intros H; inversion H; reflexivity.
  - intros H; inversion H; reflexivity.
Qed.
Lemma next_loop_offset : forall f st st' tok, next_loop sc f st = Ok (st', tok) -> it_offset st' = it_offset st.
Proof.
  induction f as [|f IH]; intros st st' tok En; [discriminate|].
  cbn [next_loop] in En. unfold peek_from, mode_has_transition in En.
  destruct (sc_find sc (it_mode st) (it_rest st)) as [[[t0 e0]|]|]; [| |discriminate].
  - destruct (e0 =? 0); [discriminate|]. destruct (sc_trans sc (it_mode st)) as [tr0|]; [|discriminate].
    destruct (advance_to _ _) as [[st2 r2]|] eqn:Ea in En; [|discriminate]. inversion En; subst.
    apply advance_to_offset in Ea. rewrite Ea. destruct (has_transition tr0 t0); reflexivity.
  - destruct (it_rest st) as [|c0 r0].
    + destruct (record_line_offset _ _ _) as [st1|] eqn:Er in En; [|discriminate]. inversion En; subst.
      apply record_offset in Er. exact Er.
    + destruct (record_line_offset _ _ _) as [st1|] eqn:Er in En; [|discriminate].
      apply IH in En. apply record_offset in Er. rewrite En, Er. reflexivity.
Qed.

(* ---------- peek_n agrees with next ---------- *)
(* One round of the peek loop on a state st (whose mode and offset it uses) with the cursor copy
   (rest, rel) = that of st: it finds the token next would return; if the token has a
   transition the loop stops and reports the target, otherwise it continues exactly from the
   cursor next leaves behind. *)
Lemma peek_loop_next n st acc : RInv st ->
  match next_match sc st with
  | Panic => False
  | Ok (st', None) => peek_loop sc (S n) st (it_rest st) (it_rel st) acc = Ok (acc, None)
  | Ok (st', Some tok) =>
      exists tr, sc_trans sc (it_mode st) = Ok tr /\
      match has_transition tr (fst (fst tok)) with
      | Some m' => peek_loop sc (S n) st (it_rest st) (it_rel st) acc = Ok (acc ++ [tok], Some m') /\ it_mode st' = m'
      | None => it_mode st' = it_mode st /\ it_offset st' = it_offset st /\
                peek_loop sc (S n) st (it_rest st) (it_rel st) acc = peek_loop sc n st (it_rest st') (it_rel st') (acc ++ [tok])
      end
  end.
Proof.
  intros HI. pose proof HI as (Hs & Hl & Hm).
  pose proof (next_match_spec st HI) as Hn.
  pose proof (peek_find_spec (S (length (it_rest st))) (it_mode st) (it_offset st) (it_rest st) (it_rel st) Hm (Nat.lt_succ_diag_r _)) as Hp.
  fold (apos st) in Hp.
  destruct (anext (S (length (it_rest st))) (it_mode st) (apos st) (it_rest st)) as [[[[m' p'] s'] tok]|] eqn:Ea; [|destruct Hn].
  destruct Hn as (st' & En & HI' & Hm' & Hp' & Hr' & Hin'). rewrite En.
  cbn [peek_loop].
  destruct (peek_find sc (S (length (it_rest st))) (it_mode st) (it_rest st) (it_rel st)) as [[[[[[t a] b]|] rest1] rel1]|] eqn:Epf; [| |destruct Hp].
  - destruct Hp as (m2 & s2 & E2 & Hrel1 & Hab & Hd1). inversion E2; subst m2 p' s2 tok. clear E2.
    destruct (anext_token _ _ _ _ _ _ _ _ _ _ _ Hs Ea) as (A1 & A2 & A3 & A4 & A5 & (tr & Etr & Emode)).
    exists tr. split; [exact Etr|]. cbn [fst].
    unfold mode_has_transition. rewrite Etr.
    assert (Ebs : b =? a = false) by (apply Nat.eqb_neq; lia). rewrite Ebs.
    assert (Hsk : skip_to b rest1 rel1 = (s', b)).
    { apply skip_to_lands; [lia|]. subst rel1. exact Hd1. }
    rewrite Hsk.
    destruct (has_transition tr t) as [mm|] eqn:Eh.
    + split; [reflexivity|]. congruence.
    + assert (Ho' : it_offset st' = it_offset st /\ it_rel st' = b).
      { (* the offset never changes in next; the cursor is at b + offset *)
        assert (Hoff : it_offset st' = it_offset st) by (eapply next_loop_offset; exact En).
        split; [exact Hoff|]. match goal with H : apos st' = _ |- _ => unfold apos in H; lia end. }
      destruct Ho' as (Ho' & Hrel'). split; [congruence|]. split; [exact Ho'|].
      rewrite Hr', Hrel'. reflexivity.
  - destruct Hp as (m2 & p2 & E2). inversion E2; subst. reflexivity.
Qed.
End IP.
