(* OkProofs.v — every accepting entry of a compiled automaton carries a terminal id that is listed
   in `tids` (so CompiledDfa::priority_of(..).unwrap() in find_from never panics):
     compile_mode_dfa_ok : compile_mode pats = Compiled A -> dfa_ok A
     compile_la_dfa_ok   : compile_la a = Compiled A -> dfa_ok A
   The argument is purely structural and needs no well-formedness of the NFAs:
     1. dfa_ok D <-> every entry (true, t) of fin D has t in tids D (`fin_in`), <-> dfa_okb D = true
     2. the BFS (Compile.bfs): every pair (j, tk) pushed to `accs` has tk = tokf target, and
        `finish` writes only those pairs into `fin`; for compile_mp the function tokf = mp_tok
        returns the terminal id of a member of mp (so it is in map fst mp = tids), for
        compile_single it is the constant tid (tids = [tid])
     3. the minimizer: add_representative_state copies accepting entries of `fin A` only, and
        create_from_partition keeps tids. *)
From Scnr Require Import Base Regex Automaton FindFrom FindFromProofs ModeProofs Spec Nfa NfaProofs
  Minimizer MinimizerProofs RuleProofs Compile CompileProofs.

(* ================================================================== *)
(* 1. dfa_ok as a property of the vector `fin`                          *)
(* ================================================================== *)
Definition fin_in (ti:list N) (fi:list (bool * N)) : Prop := forall t, In (true, t) fi -> In t ti.

Lemma set_nth_in {X} (x y:X) : forall l i, In x (set_nth i y l) -> x = y \/ In x l.
Proof.
  induction l as [|z l IH]; intros i H; destruct i as [|i]; cbn [set_nth In] in *.
  - contradiction.
  - contradiction.
  - destruct H as [H|H]; auto.
  - destruct H as [H|H]; auto. apply IH in H. tauto.
Qed.

Lemma fin_in_repeat ti n : fin_in ti (repeat (false, 0%N) n).
Proof. intros t H. apply repeat_spec in H. discriminate. Qed.

Lemma fin_in_set_nth ti fi i t : fin_in ti fi -> In t ti -> fin_in ti (set_nth i (true, t) fi).
Proof.
  intros Hf Ht t' H. apply set_nth_in in H as [H|H]; [inversion H; subst; exact Ht | apply Hf; exact H].
Qed.

(* an accepting state is an entry of fin (the default of an out-of-range index is (false, _)) *)
Lemma acc_in D q t : acc D q t = true -> In (true, t) (fin D).
Proof.
  unfold acc. intros H. destruct (nth_in_or_default q (fin D) (false, 0%N)) as [Hin|Hd].
  - destruct (nth q (fin D) (false, 0%N)) as [[|] t']; [|discriminate].
    apply N.eqb_eq in H. subst. exact Hin.
  - rewrite Hd in H. discriminate.
Qed.
Lemma in_acc D t : In (true, t) (fin D) -> exists q, q < length (fin D) /\ acc D q t = true.
Proof.
  intros H. apply (In_nth _ _ (false, 0%N)) in H as (q & Hq & E). exists q. split; [exact Hq|].
  unfold acc. rewrite E. apply N.eqb_refl.
Qed.

Lemma dfa_ok_fin_in D : dfa_ok D <-> fin_in (tids D) (fin D).
Proof.
  unfold dfa_ok, fin_in. split.
  - intros H t Hin. apply in_acc in Hin as (q & _ & Ha). eapply H; exact Ha.
  - intros H q t Ha. apply H. eapply acc_in; exact Ha.
Qed.

Lemma fin_in_okb D : fin_in (tids D) (fin D) -> dfa_okb D = true.
Proof.
  intros H. unfold dfa_okb. apply forallb_forall. intros [b t] Hin. cbn [fst snd].
  destruct b; [|reflexivity]. apply nmem_in. apply H. exact Hin.
Qed.

(* the converse of ModeProofs.dfa_okb_ok *)
Lemma dfa_ok_okb D : dfa_ok D -> dfa_okb D = true.
Proof. intros H. apply fin_in_okb. apply dfa_ok_fin_in. exact H. Qed.

Lemma dfa_okb_iff D : dfa_okb D = true <-> dfa_ok D.
Proof. split; [apply dfa_okb_ok | apply dfa_ok_okb]. Qed.

(* (mode_ok M -> mode_okb M = true does not hold in general: mode_okb also checks entries of
   `las M` that are shadowed by an earlier entry with the same key, mode_ok reads through nassoc) *)

(* ================================================================== *)
(* 2. the BFS: terminal ids in `accs` come from tokf                    *)
(* ================================================================== *)
Section BfsOk.
Variable cl : nat -> res (list nat).
Variable mt : list nat -> res (list (N * nat)).
Variable tokf : nat -> res N.
Variable accb : list nat -> bool.
Variable ti : list N.
Hypothesis tok_in : forall q t, tokf q = Ok t -> In t ti.

Definition accs_in (st:bst) : Prop := forall j t, In (j, t) (accs st) -> In t ti.

Lemma visit_accs_in cur ct st st' :
  accs_in st -> visit cl tokf accb cur ct st = Ok st' -> accs_in st'.
Proof.
  unfold visit. intros HI H.
  destruct (cl (snd ct)) as [v|]; [|discriminate]. cbn [rbind] in H.
  destruct (tokf (snd ct)) as [tk|] eqn:Et.
  - pose proof (tok_in _ _ Et) as Htk.
    destruct (set_index (norm v) (smap st)) as [j|]; cbn [rbind] in H; inversion H; subst st'; clear H;
      unfold accs_in; cbn [accs]; intros j' t' Hin;
      match type of Hin with context[if ?b then _ else _] => destruct b end;
      try (apply in_app_iff in Hin as [Hin|Hin]; [|destruct Hin as [Hin|[]]; inversion Hin; subst; exact Htk]);
      eapply HI; exact Hin.
  - destruct (set_index (norm v) (smap st)) as [j|]; cbn [rbind] in H; discriminate.
Qed.

Lemma visits_accs_in targets : forall cur r st',
  match r with Ok st => accs_in st | Panic => True end ->
  fold_left (fun acc ct => rbind acc (fun s => visit cl tokf accb cur ct s)) targets r = Ok st' ->
  accs_in st'.
Proof.
  induction targets as [|ct targets IH]; intros cur r st' Hr H; cbn [fold_left] in H.
  - subst r. exact Hr.
  - eapply IH; [|exact H]. destruct r as [st|]; cbn [rbind]; [|exact I].
    destruct (visit cl tokf accb cur ct st) as [s1|] eqn:E; [|exact I].
    eapply visit_accs_in; [exact Hr | exact E].
Qed.

Lemma bfs_loop_accs_in : forall fuel st st',
  accs_in st -> bfs_loop cl mt tokf accb fuel st = Ok st' -> accs_in st'.
Proof.
  induction fuel as [|f IH]; intros st st' HI H; cbn [bfs_loop] in H; [discriminate|].
  destruct (queue st) as [|cur rest] eqn:Eq; [inversion H; subst; exact HI|].
  destruct (nth_error (smap st) cur) as [X|]; [|discriminate].
  destruct (mt X) as [targets|]; [|discriminate]. cbn [rbind] in H.
  match type of H with rbind ?r _ = _ => destruct r as [st1|] eqn:Ef end; [|discriminate].
  cbn [rbind] in H. eapply IH; [|exact H].
  eapply visits_accs_in; [|exact Ef]. exact HI.
Qed.

Lemma fold_set_fin_in : forall (ac:list (nat * N)) base,
  (forall j t, In (j, t) ac -> In t ti) -> fin_in ti base ->
  fin_in ti (fold_left (fun f (e:nat * N) => set_nth (fst e) (true, snd e) f) ac base).
Proof.
  induction ac as [|[j t] ac IH]; intros base Hac Hb; cbn [fold_left]; [exact Hb|].
  apply IH.
  - intros j' t' Hin. eapply Hac. right. exact Hin.
  - cbn [fst snd]. apply fin_in_set_nth; [exact Hb|]. eapply Hac. left. reflexivity.
Qed.

Lemma finish_fin_in st A : accs_in st -> finish ti st = Ok A -> tids A = ti /\ fin_in ti (fin A).
Proof.
  unfold finish. intros HI H.
  match type of H with (if ?b then _ else _) = _ => destruct b end; [|discriminate].
  inversion H; subst A; clear H. cbn [tids fin]. split; [reflexivity|].
  apply fold_set_fin_in; [exact HI | apply fin_in_repeat].
Qed.

Theorem bfs_fin_in fuel start A :
  bfs cl mt tokf accb fuel start ti = Ok A -> tids A = ti /\ fin_in ti (fin A).
Proof.
  unfold bfs. intros H. destruct (cl start) as [v0|]; [|discriminate]. cbn [rbind] in H.
  match type of H with rbind ?r _ = _ => destruct r as [st|] eqn:El end; [|discriminate].
  cbn [rbind] in H. eapply finish_fin_in; [|exact H].
  eapply bfs_loop_accs_in; [|exact El]. intros j t Hin. destruct Hin.
Qed.
End BfsOk.

Lemma mp_tok_in mp q t : mp_tok mp q = Ok t -> In t (map fst mp).
Proof.
  unfold mp_tok, find_nfa. intros H.
  destruct (find (fun tn => contains_state (snd tn) q) mp) as [tn|] eqn:E; [|discriminate].
  inversion H; subst t. apply find_some in E as [Hin _]. apply in_map. exact Hin.
Qed.

(* the unminimized automata *)
Theorem compile_mp_fin_in mp A : compile_mp mp = Ok A -> tids A = map fst mp /\ fin_in (map fst mp) (fin A).
Proof. unfold compile_mp. apply bfs_fin_in. apply mp_tok_in. Qed.

Theorem compile_single_fin_in n tid A : compile_single n tid = Ok A -> tids A = [tid] /\ fin_in [tid] (fin A).
Proof.
  unfold compile_single. apply bfs_fin_in. intros _ t H. inversion H. left. reflexivity.
Qed.

Theorem compile_mp_dfa_ok mp A : compile_mp mp = Ok A -> dfa_ok A.
Proof. intros H. apply compile_mp_fin_in in H as [Ht Hf]. apply dfa_ok_fin_in. rewrite Ht. exact Hf. Qed.

Theorem compile_single_dfa_ok n tid A : compile_single n tid = Ok A -> dfa_ok A.
Proof. intros H. apply compile_single_fin_in in H as [Ht Hf]. apply dfa_ok_fin_in. rewrite Ht. exact Hf. Qed.

(* every accepting entry of the automaton of a lookahead has terminal id tid *)
Corollary compile_single_acc_tid n tid A q t : compile_single n tid = Ok A -> acc A q t = true -> t = tid.
Proof.
  intros H Ha. apply compile_single_fin_in in H as [_ Hf]. apply acc_in in Ha. apply Hf in Ha.
  destruct Ha as [Ha|[]]. symmetry. exact Ha.
Qed.

(* ================================================================== *)
(* 3. the minimizer copies accepting entries of fin A                   *)
(* ================================================================== *)
Lemma fin_of_true_in fiA s : fst (fin_of fiA s) = true -> In (true, snd (fin_of fiA s)) fiA.
Proof.
  unfold fin_of. intros H. destruct (nth_in_or_default s fiA (false, 0%N)) as [Hin|Hd].
  - destruct (nth s fiA (false, 0%N)) as [b t]. cbn [fst snd] in *. subst b. exact Hin.
  - rewrite Hd in H. discriminate.
Qed.

Lemma add_rep_in fiA sid G : forall fi x,
  In x (add_rep fiA sid G fi) -> In x fi \/ (fst x = true /\ In x fiA).
Proof.
  unfold add_rep. induction G as [|s G IH]; intros fi x H; cbn [fold_left] in H; [left; exact H|].
  apply IH in H as [H|H]; [|right; exact H].
  destruct (fst (fin_of fiA s)) eqn:Ef; [|left; exact H].
  apply set_nth_in in H as [H|H]; [|left; exact H].
  right. subst x. cbn [fst]. split; [reflexivity|]. apply fin_of_true_in. exact Ef.
Qed.

Lemma add_reps_in md fiA : forall P i fi x,
  In x (add_reps md fiA i P fi) -> In x fi \/ (fst x = true /\ In x fiA).
Proof.
  induction P as [|G P IH]; intros i fi x H; cbn [add_reps] in H; [left; exact H|].
  apply IH in H as [H|H]; [|right; exact H]. eapply add_rep_in; exact H.
Qed.

Lemma create_from_partition_fin md A P tms t :
  In (true, t) (fin (create_from_partition md A P tms)) -> In (true, t) (fin A).
Proof.
  unfold create_from_partition. cbn [fin]. intros H. apply add_reps_in in H as [H|[_ H]]; [|exact H].
  apply repeat_spec in H. discriminate.
Qed.

Lemma minimize_fuel_fin fuel bits A B : minimize_fuel fuel bits A = Some B ->
  tids B = tids A /\ forall t, In (true, t) (fin B) -> In (true, t) (fin A).
Proof.
  unfold minimize_fuel. intros H. destruct (wf_min A); [|discriminate].
  match type of H with match ?r with _ => _ end = _ => destruct r as [P|] end; [|discriminate].
  inversion H; subst B; clear H. split; [reflexivity|].
  intros t. apply create_from_partition_fin.
Qed.

Theorem minimize_fin bits A B : minimize bits A = Some B ->
  tids B = tids A /\ forall t, In (true, t) (fin B) -> In (true, t) (fin A).
Proof. unfold minimize. apply minimize_fuel_fin. Qed.

(* an accepting state of the minimized automaton has an accepting representative *)
Corollary minimize_acc_back bits A B q t : minimize bits A = Some B -> acc B q t = true ->
  exists q0, q0 < length (fin A) /\ acc A q0 t = true.
Proof. intros H Ha. apply minimize_fin in H as [_ Hf]. apply in_acc. apply Hf. eapply acc_in; exact Ha. Qed.

Theorem minimize_dfa_ok bits A B : minimize bits A = Some B -> dfa_ok A -> dfa_ok B.
Proof.
  intros H HA. apply minimize_fin in H as [Ht Hf]. apply dfa_ok_fin_in. rewrite Ht.
  intros t Hin. apply (proj1 (dfa_ok_fin_in A) HA). apply Hf. exact Hin.
Qed.

(* ================================================================== *)
(* 4. whole modes and lookaheads                                        *)
(* ================================================================== *)
Theorem compile_mode_unmin_dfa_ok pats A : compile_mode_unmin pats = Compiled A -> dfa_ok A.
Proof.
  unfold compile_mode_unmin. intros H. destruct (nfas_of pats) as [l| |]; try discriminate.
  destruct (compile_mp (mp_build l)) as [A0|] eqn:E; [|discriminate].
  inversion H; subst A0. eapply compile_mp_dfa_ok; exact E.
Qed.

Theorem compile_la_unmin_dfa_ok a A : compile_la_unmin a = Compiled A -> dfa_ok A.
Proof.
  unfold compile_la_unmin. intros H. destruct (try_from_ast a) as [n| |]; try discriminate.
  destruct (compile_single n 0%N) as [A0|] eqn:E; [|discriminate].
  inversion H; subst A0. eapply compile_single_dfa_ok; exact E.
Qed.

Theorem compile_mode_dfa_ok : forall pats A, compile_mode pats = Compiled A -> dfa_ok A.
Proof.
  intros pats A. unfold compile_mode. intros H.
  destruct (compile_mode_unmin pats) as [A0| |] eqn:E; try discriminate.
  destruct (minimize 32 A0) as [B|] eqn:Em; [|discriminate]. inversion H; subst B.
  eapply minimize_dfa_ok; [exact Em|]. eapply compile_mode_unmin_dfa_ok; exact E.
Qed.

Theorem compile_la_dfa_ok : forall a A, compile_la a = Compiled A -> dfa_ok A.
Proof.
  intros a A. unfold compile_la. intros H.
  destruct (compile_la_unmin a) as [A0| |] eqn:E; try discriminate.
  destruct (minimize 32 A0) as [B|] eqn:Em; [|discriminate]. inversion H; subst B.
  eapply minimize_dfa_ok; [exact Em|]. eapply compile_la_unmin_dfa_ok; exact E.
Qed.

(* the boolean forms used by callers *)
Corollary compile_mode_dfa_okb pats A : compile_mode pats = Compiled A -> dfa_okb A = true.
Proof. intros H. apply dfa_ok_okb. eapply compile_mode_dfa_ok; exact H. Qed.
Corollary compile_la_dfa_okb a A : compile_la a = Compiled A -> dfa_okb A = true.
Proof. intros H. apply dfa_ok_okb. eapply compile_la_dfa_ok; exact H. Qed.

(* tids of a compiled mode: the terminal ids of the patterns in order; of a lookahead: [0] *)
Lemma nfas_of_fst : forall pats l, nfas_of pats = NBuilt l -> map fst l = map fst pats.
Proof.
  induction pats as [|[t a] ps IH]; intros l H; cbn [nfas_of] in H.
  - inversion H. reflexivity.
  - destruct (try_from_ast a) as [n| |]; try discriminate.
    destruct (nfas_of ps) as [l'| |]; try discriminate. inversion H; subst l. cbn [map fst]. f_equal.
    apply IH. reflexivity.
Qed.
Lemma mp_build_from_fst : forall l next, map fst (mp_build_from next l) = map fst l.
Proof.
  induction l as [|[t n] l IH]; intros next; cbn [mp_build_from map fst]; [reflexivity|]. f_equal. apply IH.
Qed.
Theorem compile_mode_tids_eq pats A : compile_mode pats = Compiled A -> tids A = map fst pats.
Proof.
  unfold compile_mode, compile_mode_unmin. intros H.
  destruct (nfas_of pats) as [l| |] eqn:El; try discriminate.
  destruct (compile_mp (mp_build l)) as [A0|] eqn:E; [|discriminate].
  destruct (minimize 32 A0) as [B|] eqn:Em; [|discriminate]. inversion H; subst B.
  apply minimize_fin in Em as [Ht _]. rewrite Ht. apply compile_mp_fin_in in E as [E _]. rewrite E.
  unfold mp_build. rewrite mp_build_from_fst. apply nfas_of_fst. exact El.
Qed.
Theorem compile_la_tids_eq a A : compile_la a = Compiled A -> tids A = [0%N].
Proof.
  unfold compile_la, compile_la_unmin. intros H.
  destruct (try_from_ast a) as [n| |]; try discriminate.
  destruct (compile_single n 0%N) as [A0|] eqn:E; [|discriminate].
  destruct (minimize 32 A0) as [B|] eqn:Em; [|discriminate]. inversion H; subst B.
  apply minimize_fin in Em as [Ht _]. rewrite Ht. apply compile_single_fin_in in E as [E _]. exact E.
Qed.

Print Assumptions compile_mode_dfa_ok.
Print Assumptions compile_la_dfa_ok.
