(* ClassAlgProofs.v — proofs about ClassAlg.v: the transcribed evaluation equals the set algebra;
   literal / dot / range facts; negation; congruence on atoms; table-backed named sets. *)
From Scnr Require Import Base ClassAlg.
Local Open Scope N_scope.

(* ---------- unfolding equations (all by computation) ---------- *)
Section Unfold.
  Variable named : named_item -> N -> bool.

  Lemma eval_set_CItem neg i : eval_set named neg (CItem i) = eval_item named neg i.
  Proof. reflexivity. Qed.
  Lemma eval_set_COp neg op l r :
    eval_set named neg (COp op l r) =
    neg_if neg (eval_binop op (eval_set named false l) (eval_set named false r)).
  Proof. reflexivity. Qed.
  Lemma eval_item_IBracketed neg n s :
    eval_item named neg (IBracketed n s) = neg_if neg (eval_set named n s).
  Proof. reflexivity. Qed.
  Lemma eval_item_IUnion neg items :
    eval_item named neg (IUnion items) = neg_if neg (eval_union named items).
  Proof. reflexivity. Qed.
  Lemma denote_set_CItem i ch : denote_set named (CItem i) ch = denote_item named i ch.
  Proof. reflexivity. Qed.
  Lemma denote_item_IBracketed n s ch :
    denote_item named (IBracketed n s) ch =
    if n then negb (denote_set named s ch) else denote_set named s ch.
  Proof. reflexivity. Qed.
  Lemma denote_item_IUnion items ch :
    denote_item named (IUnion items) ch = existsb (fun x => denote_item named x ch) items.
  Proof. reflexivity. Qed.
End Unfold.

(* ---------- small facts ---------- *)
Lemma neg_if_xorb b f ch : neg_if b f ch = xorb b (f ch).
Proof. destruct b; cbn [neg_if]; destruct (f ch); reflexivity. Qed.

Lemma if_neg_xorb (b x:bool) : (if b then negb x else x) = xorb b x.
Proof. destruct b, x; reflexivity. Qed.

Lemma eval_literal_denote c v ch : eval_literal c v ch = denote_lit c v ch.
Proof. unfold eval_literal, denote_lit, dot_set. destruct (is_verbatim_dot c v); reflexivity. Qed.

Lemma eval_binop_spec op (f g:N -> bool) ch :
  eval_binop op f g ch =
  match op with
  | OAnd => f ch && g ch
  | ODiff => f ch && negb (g ch)
  | OSym => xorb (f ch) (g ch)
  end.
Proof. destruct op; cbn [eval_binop]; try reflexivity. destruct (f ch), (g ch); reflexivity. Qed.

(* Rust's try_fold over the union items is an "exists" *)
Lemma fold_union_spec (f:citem -> N -> bool) l : forall (a:N -> bool) ch,
  fold_left (fun (acc:N -> bool) (x:citem) => fun ch => acc ch || f x ch) l a ch =
  a ch || existsb (fun x => f x ch) l.
Proof.
  induction l as [|x l IH]; intros a ch; cbn [fold_left existsb].
  - now rewrite orb_false_r.
  - rewrite IH. now rewrite orb_assoc.
Qed.

Lemma existsb_ext_Forall {A} (f g:A -> bool) l :
  Forall (fun x => f x = g x) l -> existsb f l = existsb g l.
Proof. induction 1 as [|x l H _ IH]; cbn [existsb]; [reflexivity|]. now rewrite H, IH. Qed.

(* ---------- C08: the transcription is the set algebra ---------- *)
Section Main.
  Variable named : named_item -> N -> bool.

  Lemma eval_union_exists items ch :
    eval_union named items ch = existsb (fun x => eval_item named false x ch) items.
  Proof. unfold eval_union. now rewrite fold_union_spec. Qed.

  Lemma eval_named_denote n neg ch :
    neg_if neg (named n) ch = denote_named named n neg ch.
  Proof. unfold denote_named. destruct neg; reflexivity. Qed.

  Lemma eval_set_item_denote :
    (forall s neg ch, eval_set named neg s ch = xorb neg (denote_set named s ch)) /\
    (forall i neg ch, eval_item named neg i ch = xorb neg (denote_item named i ch)).
  Proof.
    apply cset_citem_mut.
    - (* CItem *) intros i IH neg ch. rewrite eval_set_CItem, denote_set_CItem. apply IH.
    - (* COp *) intros op l r IHl IHr neg ch.
      rewrite eval_set_COp, neg_if_xorb, eval_binop_spec, IHl, IHr, !xorb_false_l.
      destruct op; reflexivity.
    - (* IEmpty *) intros neg ch. apply neg_if_xorb.
    - (* ILit *) intros c v neg ch.
      change (neg_if neg (eval_literal c v) ch = xorb neg (denote_lit c v ch)).
      now rewrite neg_if_xorb, eval_literal_denote.
    - (* IRange *) intros s e neg ch.
      change (neg_if neg (fun ch => N.leb s ch && N.leb ch e) ch = xorb neg (in_range s e ch)).
      now rewrite neg_if_xorb.
    - (* IAscii *) intros k n neg ch.
      change (neg_if neg (neg_if n (named (NAscii k))) ch
              = xorb neg (denote_named named (NAscii k) n ch)).
      now rewrite neg_if_xorb, eval_named_denote.
    - (* IUnicode *) intros id n neg ch.
      change (neg_if neg (neg_if n (named (NUnicode id))) ch
              = xorb neg (denote_named named (NUnicode id) n ch)).
      now rewrite neg_if_xorb, eval_named_denote.
    - (* IPerl *) intros k n neg ch.
      change (neg_if neg (neg_if n (named (NPerl k))) ch
              = xorb neg (denote_named named (NPerl k) n ch)).
      now rewrite neg_if_xorb, eval_named_denote.
    - (* IBracketed *) intros n s IH neg ch.
      rewrite eval_item_IBracketed, denote_item_IBracketed, neg_if_xorb, IH.
      now rewrite if_neg_xorb.
    - (* IUnion *) intros items IH neg ch.
      rewrite eval_item_IUnion, denote_item_IUnion, neg_if_xorb, eval_union_exists.
      f_equal. apply existsb_ext_Forall.
      eapply Forall_impl; [|exact IH]. cbn beta. intros x Hx.
      now rewrite Hx, xorb_false_l.
  Qed.

  Lemma eval_set_denote s neg ch : eval_set named neg s ch = xorb neg (denote_set named s ch).
  Proof. apply eval_set_item_denote. Qed.
  Lemma eval_item_denote i neg ch : eval_item named neg i ch = xorb neg (denote_item named i ch).
  Proof. apply eval_set_item_denote. Qed.

  Lemma eval_leaf_denote l ch : eval_leaf named l ch = denote_leaf named l ch.
  Proof.
    destruct l as [|c v| |id n|k n|n s]; cbn [eval_leaf denote_leaf].
    - reflexivity.
    - apply eval_literal_denote.
    - reflexivity.
    - apply eval_named_denote.
    - apply eval_named_denote.
    - unfold eval_bracketed. now rewrite eval_set_denote, if_neg_xorb.
  Qed.

  (* ---------- literal, dot, range ---------- *)
  Lemma eval_leaf_literal c v ch :
    (c <> 46 \/ v = false) -> eval_leaf named (LLit c v) ch = N.eqb ch c.
  Proof.
    intros H. cbn [eval_leaf]. unfold eval_literal, is_verbatim_dot.
    destruct (N.eqb c 46) eqn:E; cbn [andb]; [|reflexivity].
    destruct v; [|reflexivity].
    apply N.eqb_eq in E. destruct H as [H|H]; [contradiction|discriminate].
  Qed.

  Lemma eval_leaf_verbatim_dot ch :
    eval_leaf named (LLit 46 true) ch = negb (N.eqb ch 10 || N.eqb ch 13).
  Proof. cbn [eval_leaf]. unfold eval_literal, is_verbatim_dot. cbn [N.eqb Pos.eqb andb].
    now rewrite negb_orb. Qed.

  Lemma eval_leaf_dot ch : eval_leaf named LDot ch = negb (N.eqb ch 10 || N.eqb ch 13).
  Proof. cbn [eval_leaf]. now rewrite negb_orb. Qed.

  Lemma eval_leaf_empty ch : eval_leaf named LEmpty ch = true.
  Proof. reflexivity. Qed.

  Lemma eval_leaf_range s e ch :
    eval_leaf named (LBracketed false (CItem (IRange s e))) ch = (N.leb s ch && N.leb ch e).
  Proof. reflexivity. Qed.

  Lemma eval_leaf_range_iff s e ch :
    eval_leaf named (LBracketed false (CItem (IRange s e))) ch = true <-> s <= ch <= e.
  Proof. rewrite eval_leaf_range, andb_true_iff, !N.leb_le. tauto. Qed.

  (* ---------- negation ---------- *)
  Lemma eval_leaf_bracketed_neg s ch :
    eval_leaf named (LBracketed true s) ch = negb (eval_leaf named (LBracketed false s) ch).
  Proof. cbn [eval_leaf]. unfold eval_bracketed. rewrite !eval_set_denote.
    now destruct (denote_set named s ch). Qed.

  Lemma eval_set_neg s ch : eval_set named true s ch = negb (eval_set named false s ch).
  Proof. rewrite !eval_set_denote. now destruct (denote_set named s ch). Qed.

  Lemma eval_item_neg i ch : eval_item named true i ch = negb (eval_item named false i ch).
  Proof. rewrite !eval_item_denote. now destruct (denote_item named i ch). Qed.

  (* [^[^s]] is s *)
  Lemma eval_leaf_double_neg s ch :
    eval_leaf named (LBracketed true (CItem (IBracketed true s))) ch =
    eval_leaf named (LBracketed false s) ch.
  Proof. cbn [eval_leaf]. unfold eval_bracketed.
    rewrite eval_set_CItem, eval_item_IBracketed, neg_if_xorb, !eval_set_denote.
    now destruct (denote_set named s ch). Qed.

  (* a non-negated nested bracket is transparent *)
  Lemma eval_leaf_nested_plain n s ch :
    eval_leaf named (LBracketed n (CItem (IBracketed false s))) ch =
    eval_leaf named (LBracketed n s) ch.
  Proof. cbn [eval_leaf]. unfold eval_bracketed.
    rewrite eval_set_CItem, eval_item_IBracketed, neg_if_xorb, !eval_set_denote.
    now rewrite xorb_false_l. Qed.

  Lemma eval_leaf_named_neg_perl k ch :
    eval_leaf named (LPerl k true) ch = negb (eval_leaf named (LPerl k false) ch).
  Proof. reflexivity. Qed.
  Lemma eval_leaf_named_neg_unicode id ch :
    eval_leaf named (LUnicode id true) ch = negb (eval_leaf named (LUnicode id false) ch).
  Proof. reflexivity. Qed.

  (* ---------- membership readings of the operators ---------- *)
  Lemma eval_leaf_union items ch :
    eval_leaf named (LBracketed false (CItem (IUnion items))) ch = true <->
    exists x, In x items /\ eval_item named false x ch = true.
  Proof.
    cbn [eval_leaf]. unfold eval_bracketed.
    rewrite eval_set_CItem, eval_item_IUnion. cbn [neg_if].
    rewrite eval_union_exists, existsb_exists. tauto.
  Qed.

  Lemma eval_leaf_binop op l r ch :
    eval_leaf named (LBracketed false (COp op l r)) ch =
    match op with
    | OAnd => eval_set named false l ch && eval_set named false r ch
    | ODiff => eval_set named false l ch && negb (eval_set named false r ch)
    | OSym => xorb (eval_set named false l ch) (eval_set named false r ch)
    end.
  Proof. cbn [eval_leaf]. unfold eval_bracketed. rewrite eval_set_COp. cbn [neg_if].
    apply eval_binop_spec. Qed.

  (* ---------- congruence: only the atoms matter ---------- *)
  Section Congr.
    Variables ch1 ch2 : N.
    Let same (a:atom) : Prop := atom_val named a ch1 = atom_val named a ch2.

    Lemma denote_lit_congr c v :
      Forall same (atoms_of_lit c v) -> denote_lit c v ch1 = denote_lit c v ch2.
    Proof.
      unfold atoms_of_lit, denote_lit. destruct (is_verbatim_dot c v); intros H;
        inversion_clear H as [|? ? H1 _]; exact H1.
    Qed.

    Lemma denote_named_congr n neg :
      Forall same [ANamed n] -> denote_named named n neg ch1 = denote_named named n neg ch2.
    Proof.
      intros H. inversion_clear H as [|? ? H1 _]. unfold same in H1. cbn [atom_val] in H1.
      unfold denote_named. now rewrite H1.
    Qed.

    Lemma denote_set_item_congr :
      (forall s, Forall same (atoms_of_set s) -> denote_set named s ch1 = denote_set named s ch2)
      /\
      (forall i, Forall same (atoms_of_item i) ->
                 denote_item named i ch1 = denote_item named i ch2).
    Proof.
      apply cset_citem_mut.
      - intros i IH H. rewrite !denote_set_CItem. apply IH, H.
      - intros op l r IHl IHr H.
        change (atoms_of_set (COp op l r)) with (atoms_of_set l ++ atoms_of_set r) in H.
        apply Forall_app in H as [Hl Hr].
        specialize (IHl Hl). specialize (IHr Hr).
        destruct op; cbn [denote_set]; now rewrite IHl, IHr.
      - reflexivity.
      - intros c v H. apply denote_lit_congr, H.
      - intros s e H. inversion_clear H as [|? ? H1 _]. exact H1.
      - intros k n H. now apply denote_named_congr.
      - intros id n H. now apply denote_named_congr.
      - intros k n H. now apply denote_named_congr.
      - intros n s IH H. rewrite !denote_item_IBracketed.
        change (atoms_of_item (IBracketed n s)) with (atoms_of_set s) in H.
        now rewrite (IH H).
      - intros items IH H. rewrite !denote_item_IUnion.
        change (atoms_of_item (IUnion items))
          with (flat_map (fun x => atoms_of_item x) items) in H.
        apply existsb_ext_Forall.
        induction IH as [|x l Hx _ IHl]; [constructor|].
        cbn [flat_map] in H. apply Forall_app in H as [H1 H2].
        constructor; [apply Hx, H1 | apply IHl, H2].
    Qed.

    Lemma eval_leaf_congr_atoms l :
      Forall same (atoms_of_leaf l) -> eval_leaf named l ch1 = eval_leaf named l ch2.
    Proof.
      intros H. rewrite !eval_leaf_denote.
      destruct l as [|c v| |id n|k n|n s]; cbn [denote_leaf atoms_of_leaf] in *.
      - reflexivity.
      - now apply denote_lit_congr.
      - inversion_clear H as [|? ? H1 _]. exact H1.
      - now apply denote_named_congr.
      - now apply denote_named_congr.
      - destruct denote_set_item_congr as [Hs _]. now rewrite (Hs s H).
    Qed.

    Lemma eval_set_congr_atoms neg s :
      Forall same (atoms_of_set s) -> eval_set named neg s ch1 = eval_set named neg s ch2.
    Proof. intros H. rewrite !eval_set_denote. destruct denote_set_item_congr as [Hs _].
      now rewrite (Hs s H). Qed.

    (* the four projections cover the atom list *)
    Lemma projections_cover (l:list atom) :
      Forall (fun n => named n ch1 = named n ch2) (named_of_atoms l) ->
      Forall (fun c => N.eqb ch1 c = N.eqb ch2 c) (lits_of_atoms l) ->
      Forall (fun p => in_range (fst p) (snd p) ch1 = in_range (fst p) (snd p) ch2)
             (ranges_of_atoms l) ->
      (has_dot_atoms l = true -> dot_set ch1 = dot_set ch2) ->
      Forall same l.
    Proof.
      induction l as [|a l IH]; intros Hn Hl Hr Hd; [constructor|].
      destruct a as [n|c|s e|];
        cbn [named_of_atoms lits_of_atoms ranges_of_atoms has_dot_atoms flat_map existsb app orb]
          in Hn, Hl, Hr, Hd.
      - inversion_clear Hn as [|? ? H1 H2]. constructor; [exact H1 | now apply IH].
      - inversion_clear Hl as [|? ? H1 H2]. constructor; [exact H1 | now apply IH].
      - inversion_clear Hr as [|? ? H1 H2]. constructor; [exact H1 | now apply IH].
      - constructor; [exact (Hd eq_refl)|]. apply IH; auto.
    Qed.

    Lemma eval_leaf_congr l :
      Forall (fun n => named n ch1 = named n ch2) (named_of_leaf l) ->
      Forall (fun c => N.eqb ch1 c = N.eqb ch2 c) (lits_of_leaf l) ->
      Forall (fun p => in_range (fst p) (snd p) ch1 = in_range (fst p) (snd p) ch2)
             (ranges_of_leaf l) ->
      (has_dot_leaf l = true -> dot_set ch1 = dot_set ch2) ->
      eval_leaf named l ch1 = eval_leaf named l ch2.
    Proof. intros Hn Hl Hr Hd. apply eval_leaf_congr_atoms. now apply projections_cover. Qed.

    Lemma agree_eval l : agree named l ch1 ch2 -> eval_leaf named l ch1 = eval_leaf named l ch2.
    Proof. intros (Hn & Hl & Hr & Hd). now apply eval_leaf_congr. Qed.

    Lemma agreeb_eval l :
      agreeb named l ch1 ch2 = true -> eval_leaf named l ch1 = eval_leaf named l ch2.
    Proof.
      unfold agreeb. rewrite forallb_forall. intros H. apply eval_leaf_congr_atoms.
      apply Forall_forall. intros a Ha. apply eqb_prop, H, Ha.
    Qed.
  End Congr.
End Main.

(* the evaluation depends on `named` only through the named items that occur *)
Lemma eval_leaf_named_ext named1 named2 l ch :
  Forall (fun n => named1 n ch = named2 n ch) (named_of_leaf l) ->
  eval_leaf named1 l ch = eval_leaf named2 l ch.
Proof.
  intros H. rewrite !eval_leaf_denote.
  assert (HN : forall n neg, In n (named_of_leaf l) ->
                             denote_named named1 n neg ch = denote_named named2 n neg ch).
  { intros n neg Hin. unfold denote_named. rewrite Forall_forall in H. now rewrite (H n Hin). }
  assert (Hmut :
    (forall s, (forall n, In (ANamed n) (atoms_of_set s) -> named1 n ch = named2 n ch) ->
               denote_set named1 s ch = denote_set named2 s ch) /\
    (forall i, (forall n, In (ANamed n) (atoms_of_item i) -> named1 n ch = named2 n ch) ->
               denote_item named1 i ch = denote_item named2 i ch)).
  { clear. apply cset_citem_mut.
    - intros i IH Hs. rewrite !denote_set_CItem. apply IH, Hs.
    - intros op l r IHl IHr Hs.
      change (atoms_of_set (COp op l r)) with (atoms_of_set l ++ atoms_of_set r) in Hs.
      assert (El : denote_set named1 l ch = denote_set named2 l ch).
      { apply IHl. intros n Hn. apply Hs, in_or_app. now left. }
      assert (Er : denote_set named1 r ch = denote_set named2 r ch).
      { apply IHr. intros n Hn. apply Hs, in_or_app. now right. }
      destruct op; cbn [denote_set]; now rewrite El, Er.
    - reflexivity.
    - reflexivity.
    - reflexivity.
    - intros k n Hs. cbn [denote_item]. unfold denote_named.
      now rewrite (Hs (NAscii k) (or_introl eq_refl)).
    - intros id n Hs. cbn [denote_item]. unfold denote_named.
      now rewrite (Hs (NUnicode id) (or_introl eq_refl)).
    - intros k n Hs. cbn [denote_item]. unfold denote_named.
      now rewrite (Hs (NPerl k) (or_introl eq_refl)).
    - intros n s IH Hs. rewrite !denote_item_IBracketed.
      change (atoms_of_item (IBracketed n s)) with (atoms_of_set s) in Hs.
      now rewrite (IH Hs).
    - intros items IH Hs. rewrite !denote_item_IUnion.
      change (atoms_of_item (IUnion items))
        with (flat_map (fun x => atoms_of_item x) items) in Hs.
      apply existsb_ext_Forall.
      rewrite Forall_forall in IH |- *. intros x Hx. apply IH; [exact Hx|].
      intros n Hn. apply Hs, in_flat_map. exists x. split; assumption. }
  assert (Hin : forall n, In (ANamed n) (atoms_of_leaf l) -> In n (named_of_leaf l)).
  { intros n Hn. unfold named_of_leaf, named_of_atoms. apply in_flat_map.
    exists (ANamed n). split; [exact Hn | now left]. }
  destruct l as [|c v| |id n|k n|n s]; cbn [denote_leaf]; try reflexivity.
  - apply HN. now left.
  - apply HN. now left.
  - destruct Hmut as [Hs _]. rewrite (Hs s); [reflexivity|].
    intros m Hm. rewrite Forall_forall in H. apply H, Hin, Hm.
Qed.

(* ---------- named sets from a table ---------- *)
Lemma named_key_inj n1 n2 : named_key n1 = named_key n2 -> n1 = n2.
Proof.
  destruct n1 as [k1|k1|i1], n2 as [k2|k2|i2]; cbn [named_key].
  - destruct k1, k2; cbn [perl_key]; intros H; try reflexivity; discriminate H.
  - destruct k1, k2; cbn [perl_key ascii_key]; intros H; discriminate H.
  - destruct k1; cbn [perl_key]; intros H; lia.
  - destruct k1, k2; cbn [perl_key ascii_key]; intros H; discriminate H.
  - destruct k1, k2; cbn [ascii_key]; intros H; try reflexivity; discriminate H.
  - destruct k1; cbn [ascii_key]; intros H; lia.
  - destruct k2; cbn [perl_key]; intros H; lia.
  - destruct k2; cbn [ascii_key]; intros H; lia.
  - intros H. f_equal. lia.
Qed.

Lemma named_of_tbl_spec tbl n ch :
  named_of_tbl tbl n ch = true <->
  exists l, nassoc (named_key n) tbl = Some l /\ In ch l.
Proof.
  unfold named_of_tbl. destruct (nassoc (named_key n) tbl) as [l|].
  - rewrite nmem_in. split.
    + intros H. exists l. now split.
    + intros (l' & E & H). inversion E. now subst.
  - split; [discriminate|]. intros (l' & E & _). discriminate E.
Qed.

(* ---------- non-vacuity ---------- *)
Definition cls_ex_tbl : list (N * list N) :=
  [ (0, [48; 49; 50; 51; 52; 53; 54; 55; 56; 57]);     (* \d *)
    (11, [97; 98; 99; 120; 65]);                       (* [:alpha:] restricted to a sample *)
    (100, [97; 98; 99; 120; 65; 228]) ].               (* \pL restricted to a sample *)
Definition cls_ex_named := named_of_tbl cls_ex_tbl.

(* [^a-c&&[^b]x] : everything except a and c *)
Example ex_nested :
  eval_leaf_on cls_ex_named
    (LBracketed true
       (COp OAnd (CItem (IRange 97 99))
                 (CItem (IUnion [IBracketed true (CItem (ILit 98 true)); ILit 120 true]))))
    [97; 98; 99; 120; 10] = [false; true; false; true; true].
Proof. vm_compute. reflexivity. Qed.

(* [^[a-cx]&&[^b]] : everything except a, c, x *)
Example ex_nested2 :
  eval_leaf_on cls_ex_named
    (LBracketed true (COp OAnd (CItem (IUnion [IRange 97 99; ILit 120 true]))
                               (CItem (IBracketed true (CItem (ILit 98 true))))))
    [97; 98; 99; 120; 121] = [false; true; false; false; true].
Proof. vm_compute. reflexivity. Qed.

(* (\pL -- [:alpha:]) ~~ [\d0] with the sample tables above: a-umlaut and the digits *)
Example ex_named_ops :
  eval_leaf_on cls_ex_named
    (LBracketed false
       (COp OSym (COp ODiff (CItem (IUnicode 0 false)) (CItem (IAscii AAlpha false)))
                 (CItem (IUnion [IPerl PDigit false; ILit 48 true]))))
    [97; 228; 48; 49; 32] = [false; true; true; true; false].
Proof. vm_compute. reflexivity. Qed.

(* a verbatim '.' inside a bracket is the dot set, not the full stop *)
Example ex_bracket_dot :
  eval_leaf_on cls_ex_named (LBracketed false (CItem (ILit 46 true))) [46; 97; 10; 13]
  = [true; true; false; false].
Proof. vm_compute. reflexivity. Qed.

Example ex_agreeb :
  agreeb cls_ex_named (LBracketed true (COp OAnd (CItem (IRange 97 99))
                     (CItem (IUnion [IBracketed true (CItem (ILit 98 true)); ILit 120 true]))))
         121 122 = true.
Proof. vm_compute. reflexivity. Qed.
