(* FindFromProofs.v — the selection theorem of find_from: the result is a candidate, it is
   maximal in (extent, priority) among all candidates, None iff there is no candidate, and no
   panic, for every automaton whose accepting token types are listed in terminal_ids. *)
From Scnr Require Import Base Automaton FindFrom.

Section P.
Variable tbl : N -> N -> bool.
Variable A : dfa.
Variable la : N -> list N -> res (option nat).

Hypothesis la_ok : forall t rest, la t rest <> Panic.
Hypothesis acc_tids : forall q t, acc A q t = true -> In t (tids A).

Definition priod (t:N) : nat := match prio A t with Some p => p | None => 0 end.
Definition lad (t:N) (rest:list N) : option nat := match la t rest with Ok o => o | Panic => None end.

(* c1 is not better than c2 *)
Definition le_c (c1 c2:cand3) : Prop :=
  ext c1 < ext c2 \/ (ext c1 = ext c2 /\ priod (tk c2) <= priod (tk c1)).

Definition betterp (c:cand3) (b:option cand3) : bool :=
  match b with None => true
  | Some b0 => if ext b0 <? ext c then true else if ext c =? ext b0 then priod (tk c) <? priod (tk b0) else false end.

Definition considerp (e:nat) (rest:list N) (b:option cand3) (t:N) : option cand3 :=
  match lad t rest with None => b | Some l => if betterp (e,l,t) b then Some (e,l,t) else b end.

Fixpoint simp (S:list nat) (i:nat) (s:list N) (b:option cand3) : option cand3 :=
  match s with [] => b
  | c :: s' => let e := i + len_utf8 c in
               let b' := fold_left (considerp e s') (acc_targets tbl A S c) b in
               match step tbl A S c with [] => b' | S' => simp S' e s' b' end end.

(* ---------- the transcription never panics and equals the pure version ---------- *)
Definition tok_ok (b:option cand3) : Prop := forall b0, b = Some b0 -> In (tk b0) (tids A).

Lemma nindex_some t l : In t l -> nindex t l <> None.
Proof.
  induction l as [|y l IH]; cbn [nindex In]; [tauto|]. intros [->|H].
  - rewrite N.eqb_refl. discriminate.
  - destruct (N.eqb t y); [discriminate|]. specialize (IH H). destruct (nindex t l); [discriminate|congruence].
Qed.

Lemma better_pure c b : In (tk c) (tids A) -> tok_ok b -> better A c b = Ok (betterp c b).
Proof.
  intros Hc Hb. unfold better, betterp. destruct b as [b0|]; [|reflexivity].
  destruct (ext b0 <? ext c); [reflexivity|]. destruct (ext c =? ext b0); [|reflexivity].
  unfold priod. pose proof (nindex_some _ _ Hc) as H1. pose proof (nindex_some _ _ (Hb b0 eq_refl)) as H2.
  unfold prio in *. destruct (nindex (tk c) (tids A)); [|congruence].
  destruct (nindex (tk b0) (tids A)); [|congruence]. reflexivity.
Qed.

Lemma consider_pure e rest b t : tok_ok b -> In t (tids A) ->
  consider A la e rest (Ok b) t = Ok (considerp e rest b t) /\ tok_ok (considerp e rest b t).
Proof.
  intros Hb Ht. unfold consider, considerp, lad. pose proof (la_ok t rest) as Hl.
  destruct (la t rest) as [[l|]|]; [| split; [reflexivity|exact Hb] | congruence].
  rewrite better_pure by (cbn; assumption).
  destruct (betterp (e,l,t) b); split; try reflexivity; try exact Hb.
  intros b0 E. inversion E; subst. exact Ht.
Qed.

Lemma fold_consider_pure e rest ts : forall b, tok_ok b -> (forall t, In t ts -> In t (tids A)) ->
  fold_left (consider A la e rest) ts (Ok b) = Ok (fold_left (considerp e rest) ts b)
  /\ tok_ok (fold_left (considerp e rest) ts b).
Proof.
  induction ts as [|t ts IH]; intros b Hb Hts; cbn [fold_left].
  - split; [reflexivity|exact Hb].
  - destruct (consider_pure e rest b t Hb (Hts t (or_introl eq_refl))) as [E Hb'].
    rewrite E. apply IH; [exact Hb'|]. intros t' Ht'. apply Hts. right; exact Ht'.
Qed.

Lemma acc_targets_spec S c t :
  In t (acc_targets tbl A S c) <-> exists q', In q' (step tbl A S c) /\ acc A q' t = true.
Proof.
  unfold acc_targets. rewrite in_flat_map. split.
  - intros (q & Hq & H). rewrite in_flat_map in H. destruct H as (q' & Hq' & H).
    exists q'. split; [apply step_in; eauto|]. unfold acc.
    destruct (nth q' (fin A) (false,0%N)) as [[|] t']; [|destruct H].
    destruct H as [<-|[]]. apply N.eqb_refl.
  - intros (q' & Hq' & H). apply step_in in Hq' as (q & Hq & Ho). exists q. split; auto.
    rewrite in_flat_map. exists q'. split; auto. unfold acc in H.
    destruct (nth q' (fin A) (false,0%N)) as [[|] t']; [|discriminate].
    apply N.eqb_eq in H; subst. left; auto.
Qed.

Lemma acc_targets_tids S c t : In t (acc_targets tbl A S c) -> In t (tids A).
Proof. intros H. apply acc_targets_spec in H as (q' & _ & Ha). eapply acc_tids; eauto. Qed.

Lemma sim_pure : forall s S i b, tok_ok b ->
  sim tbl A la S i s b = Ok (simp S i s b) /\ tok_ok (simp S i s b).
Proof.
  induction s as [|c s IH]; intros S i b Hb; cbn [sim simp].
  - split; [reflexivity|exact Hb].
  - destruct (fold_consider_pure (i + len_utf8 c) s (acc_targets tbl A S c) b Hb) as [E Hb'].
    { intros t. apply acc_targets_tids. }
    cbn zeta. rewrite E. destruct (step tbl A S c) as [|q0 S'].
    + split; [reflexivity|exact Hb'].
    + apply IH. exact Hb'.
Qed.

(* ---------- order on candidates ---------- *)
Lemma better_false c b0 : betterp c (Some b0) = false -> le_c c b0.
Proof.
  unfold betterp, le_c. destruct (ext b0 <? ext c) eqn:E1; [discriminate|].
  apply Nat.ltb_ge in E1. destruct (ext c =? ext b0) eqn:E2.
  - apply Nat.eqb_eq in E2. intros H. apply Nat.ltb_ge in H. lia.
  - apply Nat.eqb_neq in E2. intros _. lia.
Qed.
Lemma better_true c b0 : betterp c (Some b0) = true -> le_c b0 c.
Proof.
  unfold betterp, le_c. destruct (ext b0 <? ext c) eqn:E1.
  - apply Nat.ltb_lt in E1. lia.
  - apply Nat.ltb_ge in E1. destruct (ext c =? ext b0) eqn:E2; [|discriminate].
    apply Nat.eqb_eq in E2. intros H. apply Nat.ltb_lt in H. lia.
Qed.
Lemma le_c_refl c : le_c c c. Proof. unfold le_c; lia. Qed.
Lemma le_c_trans a b c : le_c a b -> le_c b c -> le_c a c. Proof. unfold le_c; lia. Qed.

(* ---- fold over the candidates of one step ---- *)
Lemma fold_considerp e rest ts : forall b,
  let b' := fold_left (considerp e rest) ts b in
  (forall c0, b = Some c0 -> exists c1, b' = Some c1 /\ le_c c0 c1) /\
  (forall t l, In t ts -> lad t rest = Some l -> exists c1, b' = Some c1 /\ le_c (e,l,t) c1) /\
  (b' = b \/ exists t l, In t ts /\ lad t rest = Some l /\ b' = Some (e,l,t)).
Proof.
  induction ts as [|t ts IH]; intros b; cbn [fold_left].
  - split; [|split].
    + intros c0 ->. exists c0. split; auto using le_c_refl.
    + intros t l [].
    + left; reflexivity.
  - destruct (IH (considerp e rest b t)) as (I1 & I2 & I3). cbn zeta in *.
    set (b1 := considerp e rest b t) in *.
    assert (Hb1: (forall c0, b = Some c0 -> exists c1, b1 = Some c1 /\ le_c c0 c1) /\
                 (forall l, lad t rest = Some l -> exists c1, b1 = Some c1 /\ le_c (e,l,t) c1) /\
                 (b1 = b \/ exists l, lad t rest = Some l /\ b1 = Some (e,l,t))).
    { unfold b1, considerp. destruct (lad t rest) as [l|] eqn:El.
      - destruct (betterp (e,l,t) b) eqn:Eb.
        + split; [|split].
          * intros c0 ->. exists (e,l,t). split; auto. apply better_true; auto.
          * intros l' E; inversion E; subst. exists (e,l',t). split; auto using le_c_refl.
          * right. exists l. auto.
        + destruct b as [b0|]; [|discriminate]. split; [|split].
          * intros c0 E; inversion E; subst. exists c0; split; auto using le_c_refl.
          * intros l' E; inversion E; subst. exists b0. split; auto. apply better_false; auto.
          * left; auto.
      - split; [|split].
        + intros c0 ->. exists c0; split; auto using le_c_refl.
        + intros l' E; discriminate.
        + left; auto. }
    destruct Hb1 as (J1 & J2 & J3).
    split; [|split].
    + intros c0 E. destruct (J1 _ E) as (c1 & E1 & L1). destruct (I1 _ E1) as (c2 & E2 & L2).
      exists c2. split; auto. eapply le_c_trans; eauto.
    + intros t' l [<-|Hin] El.
      * destruct (J2 _ El) as (c1 & E1 & L1). destruct (I1 _ E1) as (c2 & E2 & L2).
        exists c2. split; auto. eapply le_c_trans; eauto.
      * apply I2; auto.
    + destruct I3 as [E|(t' & l & Hin & El & E)].
      * rewrite E. destruct J3 as [E'|(l & El & E')].
        -- left; auto.
        -- right. exists t, l. cbn. auto.
      * right. exists t', l. cbn. auto.
Qed.

(* ---------- candidates of the whole string ---------- *)
(* k characters matched by a pattern of token type t, lookahead of t satisfied with l bytes *)
Definition Cand (s:list N) (k l:nat) (t:N) : Prop :=
  0 < k <= length s /\ accepts_tok tbl A (firstn k s) t /\ lad t (skipn k s) = Some l.
(* byte offset of the character position k in s *)
Definition bpos (s:list N) (k:nat) : nat := blen (firstn k s).

Definition Inv (p s:list N) (b:option cand3) : Prop :=
  (forall e l t, b = Some (e,l,t) ->
     exists k, k <= length p /\ e = bpos (p ++ s) k /\ Cand (p ++ s) k l t) /\
  (forall k l t, Cand (p ++ s) k l t -> k <= length p ->
     exists c1, b = Some c1 /\ le_c (bpos (p ++ s) k, l, t) c1).

Lemma firstn_snoc (p:list N) c s : firstn (S (length p)) (p ++ c :: s) = p ++ [c].
Proof.
  replace (p ++ c :: s) with ((p ++ [c]) ++ s) by (rewrite <- app_assoc; reflexivity).
  replace (S (length p)) with (length (p ++ [c])) by (rewrite app_length; cbn; lia).
  rewrite firstn_app, Nat.sub_diag, firstn_all. cbn. apply app_nil_r.
Qed.
Lemma skipn_snoc (p:list N) c s : skipn (S (length p)) (p ++ c :: s) = s.
Proof.
  replace (p ++ c :: s) with ((p ++ [c]) ++ s) by (rewrite <- app_assoc; reflexivity).
  replace (S (length p)) with (length (p ++ [c])) by (rewrite app_length; cbn; lia).
  rewrite skipn_app, Nat.sub_diag, skipn_all. reflexivity.
Qed.

Lemma sim_spec : forall s p b, Inv p s b ->
  Inv (p ++ s) [] (simp (run tbl A [0] p) (blen p) s b).
Proof.
  induction s as [|c s IH]; intros p b HI.
  - cbn [simp]. rewrite app_nil_r in *. exact HI.
  - cbn [simp]. cbn zeta.
    set (S0 := run tbl A [0] p).
    set (e := blen p + len_utf8 c).
    set (b' := fold_left (considerp e s) (acc_targets tbl A S0 c) b).
    destruct (fold_considerp e s (acc_targets tbl A S0 c) b) as (F1 & F2 & F3). fold b' in F1, F2, F3.
    assert (He : e = bpos (p ++ c :: s) (S (length p))).
    { unfold bpos. rewrite firstn_snoc, blen_app. cbn [blen]. unfold e. lia. }
    (* invariant after reading c *)
    assert (HI' : Inv (p ++ [c]) s b').
    { destruct HI as (H1 & H2). unfold Inv. rewrite <- app_assoc. cbn [app]. split.
      - intros e1 l1 t1 E. destruct F3 as [Eb|(t & l & Hin & El & Eb)].
        + rewrite Eb in E. destruct (H1 _ _ _ E) as (k & Hk & Hek & Hc). exists k. split; [|split]; auto.
          rewrite app_length. cbn. lia.
        + rewrite Eb in E. inversion E; subst e1 l1 t1. exists (S (length p)). split; [|split].
          * rewrite app_length. cbn. lia.
          * exact He.
          * unfold Cand. split; [rewrite app_length; cbn; lia|]. split.
            -- rewrite firstn_snoc. apply acc_targets_spec in Hin as (q' & Hq' & Ha).
               exists q'. split; auto. rewrite run_app. cbn. exact Hq'.
            -- rewrite skipn_snoc. exact El.
      - intros k l t Hc Hk. rewrite app_length in Hk. cbn in Hk.
        destruct (Nat.eq_dec k (S (length p))) as [->|Hne].
        + destruct Hc as (_ & Hacc & Hla). rewrite firstn_snoc in Hacc. rewrite skipn_snoc in Hla.
          rewrite <- He. apply F2; auto. apply acc_targets_spec. destruct Hacc as (q' & Hq' & Ha).
          exists q'. split; auto. rewrite run_app in Hq'. exact Hq'.
        + destruct (H2 k l t Hc) as (c1 & E1 & L1); [lia|].
          destruct (F1 _ E1) as (c2 & E2 & L2). exists c2. split; auto. eapply le_c_trans; eauto. }
    destruct (step tbl A S0 c) as [|q0 S'] eqn:Es.
    + (* early exit: no candidate beyond *)
      destruct HI' as (H1 & H2). unfold Inv. rewrite app_nil_r.
      replace (p ++ c :: s) with ((p ++ [c]) ++ s) by (rewrite <- app_assoc; reflexivity). split.
      * intros e1 l1 t1 E. destruct (H1 _ _ _ E) as (k & Hk & Hek & Hc). exists k. split; [|split]; auto.
        rewrite app_length. lia.
      * intros k l t Hc _.
        destruct (le_lt_dec k (length (p ++ [c]))) as [Hle|Hgt]; [apply H2; auto|].
        exfalso. destruct Hc as (Hk & (q' & Hq' & _) & _).
        rewrite <- (firstn_skipn (length (p ++ [c])) (firstn k ((p ++ [c]) ++ s))) in Hq'.
        rewrite firstn_firstn, Nat.min_l in Hq' by lia.
        rewrite firstn_app, Nat.sub_diag, firstn_all in Hq'. cbn [firstn] in Hq'. rewrite app_nil_r in Hq'.
        rewrite run_app, (run_app _ _ _ p [c]) in Hq'. cbn [run] in Hq'. fold S0 in Hq'. rewrite Es in Hq'.
        rewrite run_nil in Hq'. destruct Hq'.
    + specialize (IH (p ++ [c]) b' HI').
      rewrite run_app in IH. cbn [run] in IH. fold S0 in IH. rewrite Es in IH.
      rewrite blen_app in IH. cbn [blen] in IH. rewrite Nat.add_0_r in IH. fold e in IH.
      rewrite <- app_assoc in IH. exact IH.
Qed.

(* ---------- the selection theorem ---------- *)
Theorem find_from_spec s :
  match find_from tbl A la s with
  | Panic => False
  | Ok None => forall k l t, ~ Cand s k l t
  | Ok (Some (t,e)) =>
      exists k l, e = bpos s k /\ Cand s k l t /\
        forall k' l' t', Cand s k' l' t' -> le_c (bpos s k', l', t') (e, l, t)
  end.
Proof.
  unfold find_from.
  assert (Hn : tok_ok None) by (intros b0 E; discriminate).
  destruct (sim_pure s [0] 0 None Hn) as [E _]. rewrite E.
  assert (H0 : Inv [] s None).
  { split; [discriminate|]. intros k l t (Hk & _) Hle. cbn in Hle. lia. }
  pose proof (sim_spec s [] None H0) as (H1 & H2). cbn [app length run blen] in H1, H2.
  rewrite app_nil_r in H1, H2.
  destruct (simp [0] 0 s None) as [[[e l] t]|].
  - destruct (H1 _ _ _ eq_refl) as (k & _ & Hek & Hc). exists k, l. split; [exact Hek|]. split; [exact Hc|].
    intros k' l' t' Hc'. destruct (H2 k' l' t' Hc') as (c1 & E1 & L).
    + destruct Hc' as (Hk & _). lia.
    + inversion E1; subst. exact L.
  - intros k l t Hc. destruct (H2 k l t Hc) as (c1 & E1 & _); [|discriminate].
    destruct Hc as (Hk & _). lia.
Qed.

(* a reported match is never empty and lies inside s *)
Corollary find_from_nonempty s t e :
  find_from tbl A la s = Ok (Some (t,e)) -> 0 < e <= blen s.
Proof.
  intros H. pose proof (find_from_spec s) as Hs. rewrite H in Hs.
  destruct Hs as (k & l & -> & ((Hk1 & Hk2) & _) & _). unfold bpos. split.
  - destruct s as [|c s]; [cbn in Hk2; lia|]. destruct k; [lia|]. cbn [firstn blen].
    pose proof (len_utf8_pos c). lia.
  - rewrite <- (firstn_skipn k s) at 2. rewrite blen_app. lia.
Qed.
End P.
