(* SpecFirstProofs.v — the executable specification and find_from agree for EVERY mode (with or
   without lookaheads) whose automata accept the pattern languages: both report the candidate of
   maximal extent, then earliest pattern, then earliest end. *)
From Scnr Require Import Base Regex Automaton FindFrom FindFromProofs ModeProofs Iter IterProofs IterInst Spec SpecRun
     RuleProofs SpecProofs FindFirstProofs.

Section SF.
Variable leaf : N -> N -> bool.

(* ---------- best_cand keeps the FIRST of the maximal candidates of its list ---------- *)
Definition bstep (b:option (nat * nat * N * nat)) (c:nat * nat * N * nat) :=
  match b with None => Some c | Some b0 => if cbetter c b0 then Some c else b end.

Lemma cbetter_trans_false a b c : cbetter a b = false -> cbetter b c = false -> cbetter a c = false.
Proof.
  destruct a as [[[x1 i1] t1] e1], b as [[[x2 i2] t2] e2], c as [[[x3 i3] t3] e3]. unfold cbetter.
  rewrite !orb_false_iff, !andb_false_iff, !Nat.ltb_ge, !Nat.eqb_neq. lia.
Qed.
Lemma cbetter_true_false a b c : cbetter a b = true -> cbetter c b = false -> cbetter c a = false.
Proof.
  destruct a as [[[x1 i1] t1] e1], b as [[[x2 i2] t2] e2], c as [[[x3 i3] t3] e3]. unfold cbetter.
  rewrite orb_true_iff, andb_true_iff, !orb_false_iff, !andb_false_iff, !Nat.ltb_lt, !Nat.ltb_ge, Nat.eqb_eq, !Nat.eqb_neq. lia.
Qed.

Lemma cbetter_trans_true a b c : cbetter a b = true -> cbetter b c = true -> cbetter a c = true.
Proof.
  destruct a as [[[x1 i1] t1] e1], b as [[[x2 i2] t2] e2], c as [[[x3 i3] t3] e3]. unfold cbetter.
  rewrite !orb_true_iff, !andb_true_iff, !Nat.ltb_lt, !Nat.eqb_eq. lia.
Qed.
Lemma cbetter_true_false2 a b c : cbetter a b = true -> cbetter c b = false -> cbetter a c = true.
Proof.
  destruct a as [[[x1 i1] t1] e1], b as [[[x2 i2] t2] e2], c as [[[x3 i3] t3] e3]. unfold cbetter.
  rewrite !orb_true_iff, !andb_true_iff, orb_false_iff, andb_false_iff, !Nat.ltb_lt, !Nat.ltb_ge, !Nat.eqb_eq, Nat.eqb_neq. lia.
Qed.

(* the result m of the fold over l (starting from None) splits l = l1 ++ m :: l2 where every
   element of l1 is strictly worse than m and no element of l2 is better than m *)
Lemma fold_first_max : forall l b,
  match fold_left bstep l b with
  | None => l = [] /\ b = None
  | Some m =>
      (b = Some m /\ forall c, In c l -> cbetter c m = false) \/
      (exists l1 l2, l = l1 ++ m :: l2 /\ (forall c, In c l1 -> cbetter m c = true) /\
                     (forall b0, b = Some b0 -> cbetter m b0 = true) /\
                     (forall c, In c l2 -> cbetter c m = false))
  end.
Proof.
  induction l as [|c l IH]; intros b; cbn [fold_left].
  - destruct b as [m|]; [left; split; [reflexivity|intros c []]|auto].
  - specialize (IH (bstep b c)). destruct (fold_left bstep l (bstep b c)) as [m|] eqn:E.
    + destruct IH as [(Eb & Hl)|(l1 & l2 & El & H1 & Hb & H2)].
      * (* m = bstep b c *)
        unfold bstep in Eb. destruct b as [b0|].
        -- destruct (cbetter c b0) eqn:Ec.
           ++ inversion Eb; subst m. right. exists [], l. split; [reflexivity|]. split; [intros x []|].
              split; [intros b1 E1; inversion E1; subst; exact Ec|exact Hl].
           ++ inversion Eb; subst m. left. split; [reflexivity|]. intros x [<-|Hx]; [exact Ec|apply Hl; exact Hx].
        -- inversion Eb; subst m. right. exists [], l. split; [reflexivity|]. split; [intros x []|].
           split; [discriminate|exact Hl].
      * right. exists (c :: l1), l2. split; [rewrite El; reflexivity|].
        assert (Hbs : cbetter m c = true /\ forall b0, b = Some b0 -> cbetter m b0 = true).
        { unfold bstep in Hb. destruct b as [b0|].
          - destruct (cbetter c b0) eqn:Ec.
            + specialize (Hb _ eq_refl). split; [exact Hb|]. intros b1 E1. inversion E1; subst b1.
              eapply cbetter_trans_true; eauto.
            + specialize (Hb _ eq_refl). split; [|intros b1 E1; inversion E1; subst; exact Hb].
              eapply cbetter_true_false2; eauto.
          - specialize (Hb _ eq_refl). split; [exact Hb|discriminate]. }
        destruct Hbs as (Hmc & Hmb). split; [intros x [<-|Hx]; [exact Hmc|apply H1; exact Hx]|]. split; [exact Hmb|exact H2].
    + destruct IH as (_ & Hb). unfold bstep in Hb. destruct b as [b0|]; [destruct (cbetter c b0)|]; discriminate.
Qed.

Lemma app_split_cases {T} : forall (u v l1:list T) a l2, u ++ v = l1 ++ a :: l2 ->
  (exists m, u = l1 ++ a :: m /\ l2 = m ++ v) \/ (exists m, l1 = u ++ m /\ v = m ++ a :: l2).
Proof.
  induction u as [|x u IH]; intros v l1 a l2 E.
  - right. exists l1. cbn in E. auto.
  - destruct l1 as [|y l1]; cbn in E; inversion E; subst.
    + left. exists u. auto.
    + destruct (IH _ _ _ _ H1) as [(m & -> & ->)|(m & -> & ->)]; [left; exists m; auto|right; exists m; auto].
Qed.

(* ---------- order of the candidate list: pattern-major, increasing end ---------- *)
Lemma cands_pat_e_lb i p : forall s r e0 x i' t e', In (x, i', t, e') (cands_pat leaf i p r s e0) -> e0 < e'.
Proof.
  intros s r e0 x i' t e' H. apply cands_pat_spec in H as (_ & _ & k & l & Hk & _ & He & _).
  subst e'. unfold bpos. destruct s as [|c s]; [cbn in Hk; lia|]. destruct k; [lia|]. cbn [firstn blen].
  pose proof (len_utf8_pos c). lia.
Qed.

Lemma cands_pat_sorted i p : forall s r e0 l1 a l2,
  cands_pat leaf i p r s e0 = l1 ++ a :: l2 -> forall b, In b l1 -> snd b < snd a.
Proof.
  induction s as [|c s IH]; intros r e0 l1 a l2 E b Hb; cbn [cands_pat] in E.
  - destruct l1; discriminate.
  - set (r' := deriv leaf c r) in *. set (e1 := e0 + len_utf8 c) in *.
    destruct (nullable r') eqn:En; [destruct (la_spec leaf (sp_la p) s) as [l0|] eqn:El|].
    + destruct l1 as [|h l1]; [destruct Hb|]. cbn [app] in E. inversion E as [[Eh Et]]. subst h.
      destruct Hb as [<-|Hb].
      * cbn [snd]. assert (Ha : In a (cands_pat leaf i p r' s e1)) by (rewrite Et; apply in_app_iff; right; left; reflexivity).
        destruct a as [[[xa ia] ta] ea]. apply cands_pat_e_lb in Ha. cbn [snd]. exact Ha.
      * eapply IH; eauto.
    + eapply IH; eauto.
    + eapply IH; eauto.
Qed.

Lemma cands_from_order : forall ps i0 s l1 a l2,
  cands_from leaf i0 ps s = l1 ++ a :: l2 -> forall b, In b l1 ->
  snd (fst (fst b)) < snd (fst (fst a)) \/ (snd (fst (fst b)) = snd (fst (fst a)) /\ snd b < snd a).
Proof.
  induction ps as [|p ps IH]; intros i0 s l1 a l2 E b Hb; cbn [cands_from] in E; [destruct l1; discriminate|].
  (* split position relative to the first pattern's block *)
  set (blk := cands_pat leaf i0 p (sp_re p) s 0) in *.
  assert (Hidx_blk : forall x, In x blk -> snd (fst (fst x)) = i0).
  { intros [[[x i] t] e] Hx. apply cands_pat_spec in Hx as (Hi & _). cbn. exact Hi. }
  assert (Hidx_rest : forall x, In x (cands_from leaf (S i0) ps s) -> i0 < snd (fst (fst x))).
  { intros [[[x i] t] e] Hx. apply cands_from_spec in Hx as (q & _ & Hi & _). cbn. lia. }
  destruct (app_split_cases _ _ _ _ _ E) as [(m & Eblk & _)|(m & El1 & Erest)].
  - (* a lies in the first block *)
    right. split.
    + rewrite (Hidx_blk b), (Hidx_blk a); [reflexivity| |]; rewrite Eblk; apply in_app_iff; [right; left; reflexivity|left; exact Hb].
    + eapply cands_pat_sorted; eauto.
  - (* a lies in the rest *)
    rewrite El1 in Hb. apply in_app_iff in Hb as [Hb|Hb].
    + left. rewrite (Hidx_blk _ Hb). apply Hidx_rest. rewrite Erest. apply in_app_iff. right. left. reflexivity.
    + eapply IH; eauto.
Qed.

Theorem best_cand_first ps s t e :
  best_cand leaf ps s = Some (t, e) ->
  exists x i, SCand leaf ps s x i t e /\
    (forall x' i' t' e', SCand leaf ps s x' i' t' e' -> x' < x \/ (x' = x /\ i <= i')) /\
    (forall t' e', SCand leaf ps s x i t' e' -> e <= e').
Proof.
  unfold best_cand. intros H.
  pose proof (fold_first_max (cands leaf ps s) None) as Hf. fold bstep in H.
  change (fun b c => match b with None => Some c | Some b0 => if cbetter c b0 then Some c else b end) with bstep in H.
  destruct (fold_left bstep (cands leaf ps s) None) as [[[[x i] t1] e1]|] eqn:E; [|discriminate]. inversion H; subst t1 e1.
  destruct Hf as [(Hb & _)|(l1 & l2 & El & H1 & _ & H2)]; [discriminate|].
  assert (Hin : In (x, i, t, e) (cands leaf ps s)) by (rewrite El; apply in_app_iff; right; left; reflexivity).
  exists x, i. split; [apply cands_spec; exact Hin|]. split.
  - intros x' i' t' e' Hc. apply cands_spec in Hc. rewrite El in Hc. apply in_app_iff in Hc as [Hc|[Hc|Hc]].
    + specialize (H1 _ Hc). unfold cbetter in H1. rewrite orb_true_iff, andb_true_iff, Nat.ltb_lt, Nat.eqb_eq, Nat.ltb_lt in H1. lia.
    + inversion Hc; subst. lia.
    + specialize (H2 _ Hc). unfold cbetter in H2. rewrite orb_false_iff, andb_false_iff, Nat.ltb_ge, Nat.eqb_neq, Nat.ltb_ge in H2. lia.
  - intros t' e' Hc. apply cands_spec in Hc. rewrite El in Hc. apply in_app_iff in Hc as [Hc|[Hc|Hc]].
    + (* an earlier element with the same extent and index would not be strictly worse *)
      specialize (H1 _ Hc). unfold cbetter in H1. rewrite orb_true_iff, andb_true_iff, Nat.ltb_lt, Nat.eqb_eq, Nat.ltb_lt in H1. lia.
    + inversion Hc; subst. lia.
    + (* later in the list with the same pattern index: larger end *)
      unfold cands in El.
      assert (El' : cands_from leaf 0 ps s = (l1 ++ (x, i, t, e) :: firstn 0 l2) ++ skipn 0 l2) by (cbn; rewrite <- app_assoc; exact El).
      apply in_split in Hc as (m1 & m2 & Em). rewrite Em in El.
      assert (El2 : cands_from leaf 0 ps s = (l1 ++ (x, i, t, e) :: m1) ++ (x, i, t', e') :: m2) by (rewrite El, <- app_assoc; reflexivity).
      destruct (cands_from_order ps 0 s _ _ _ El2 (x, i, t, e)) as [Hlt|(_ & Hlt)];
        [apply in_app_iff; right; left; reflexivity|cbn in Hlt; lia|cbn in Hlt; lia].
Qed.
End SF.

(* ---------- find_from = specification, lookaheads included ---------- *)
Section Agree2.
Variable tbl : N -> N -> bool.
Variable leaf : N -> N -> bool.
Variable M : mode_aut.
Variable ps : list spat.

Hypothesis Mok : mode_ok M.
Hypothesis Htids : tids (main M) = map sp_tok ps.
Hypothesis Hnd : NoDup (map sp_tok ps).
Hypothesis Heq : lang_equiv tbl leaf (main M) (rs_of ps).
(* every pattern's lookahead is compiled into a lookahead automaton of its token type that
   accepts exactly the lookahead pattern; patterns without lookahead have none *)
Hypothesis Hla : forall p, In p ps ->
  match sp_la p with
  | None => nassoc (sp_tok p) (las M) = None
  | Some (pos, r) => exists D, nassoc (sp_tok p) (las M) = Some (pos, D) /\
                       forall w, w <> [] -> ((exists t', accepts_tok tbl D w t') <-> mt leaf r w)
  end.

Lemma la_match_mt p pos r D rest j : In p ps -> sp_la p = Some (pos, r) -> nassoc (sp_tok p) (las M) = Some (pos, D) ->
  (la_match tbl D rest j <-> 0 < j <= length rest /\ mt leaf r (firstn j rest)).
Proof.
  intros Hp Hs Hn. pose proof (Hla p Hp) as H. rewrite Hs in H. destruct H as (D' & Hn' & He).
  rewrite Hn in Hn'. inversion Hn'; subst D'. unfold la_match. split.
  - intros (Hj & Ha). split; [exact Hj|]. apply He; [apply firstn_nonempty; exact Hj|exact Ha].
  - intros (Hj & Hm). split; [exact Hj|]. apply He; [apply firstn_nonempty; exact Hj|exact Hm].
Qed.

Lemma la_holds_spec p rest l : In p ps ->
  (la_holds tbl (las M) (sp_tok p) rest l <-> la_spec leaf (sp_la p) rest = Some l).
Proof.
  intros Hp. pose proof (Hla p Hp) as H. unfold la_holds, la_spec.
  destruct (sp_la p) as [[pos r]|] eqn:Es.
  - destruct H as (D & Hn & He). rewrite Hn. unfold longest. destruct pos.
    + split.
      * intros (j & Hm & Hl & Hmax). apply (la_match_mt p true r D rest j Hp Es Hn) in Hm as (Hj & Hm).
        destruct (longest_from leaf r rest 0 None) as [l2|] eqn:E2.
        -- destruct (longest_from_sound leaf _ _ _ _ E2) as (j2 & Hj2 & Hm2 & Hl2 & Hmax2). f_equal.
           assert (Hm2' : la_match tbl D rest j2) by (apply (la_match_mt p true r D rest j2 Hp Es Hn); auto).
           specialize (Hmax _ Hm2'). specialize (Hmax2 j Hj Hm). lia.
        -- exfalso. exact (longest_from_none leaf _ _ _ E2 j Hj Hm).
      * intros E2. destruct (longest_from_sound leaf _ _ _ _ E2) as (j2 & Hj2 & Hm2 & Hl2 & Hmax2).
        exists j2. split; [apply (la_match_mt p true r D rest j2 Hp Es Hn); auto|]. split; [lia|].
        intros j' Hm'. apply (la_match_mt p true r D rest j' Hp Es Hn) in Hm' as (Hj' & Hm'). specialize (Hmax2 j' Hj' Hm'). lia.
    + split.
      * intros (Hn0 & ->). destruct (longest_from leaf r rest 0 None) as [l2|] eqn:E2; [|reflexivity].
        exfalso. destruct (longest_from_sound leaf _ _ _ _ E2) as (j2 & Hj2 & Hm2 & _).
        apply (Hn0 j2). apply (la_match_mt p false r D rest j2 Hp Es Hn); auto.
      * destruct (longest_from leaf r rest 0 None) as [l2|] eqn:E2; [discriminate|]. intros E; inversion E; subst l.
        split; [|reflexivity]. intros j Hm. apply (la_match_mt p false r D rest j Hp Es Hn) in Hm as (Hj & Hm).
        exact (longest_from_none leaf _ _ _ E2 j Hj Hm).
  - rewrite H. split; [intros ->; reflexivity|intros E; inversion E; reflexivity].
Qed.

Lemma idx_of i p : nth_error ps i = Some p -> mprio M (sp_tok p) = i.
Proof.
  intros Hn. unfold mprio, priod, prio. rewrite Htids.
  rewrite (nindex_nth (map sp_tok ps) i (sp_tok p) Hnd); [reflexivity|]. rewrite nth_error_map, Hn. reflexivity.
Qed.

Lemma tok_unique i j p q : nth_error ps i = Some p -> nth_error ps j = Some q -> sp_tok p = sp_tok q -> i = j.
Proof. intros Hi Hj E. rewrite <- (idx_of i p Hi), <- (idx_of j q Hj), E. reflexivity. Qed.

(* candidates of the automaton = candidates of the specification *)
Lemma mcand_scand s k l t : MCand tbl M s k l t <->
  exists i, SCand leaf ps s (bpos s k + l) i t (bpos s k) /\ 0 < k <= length s /\
            exists p, nth_error ps i = Some p /\ t = sp_tok p /\ mt leaf (sp_re p) (firstn k s) /\
                      la_spec leaf (sp_la p) (skipn k s) = Some l.
Proof.
  unfold MCand. split.
  - intros (Hk & Ha & Hl). apply (Heq _ _ (firstn_nonempty s k Hk)) in Ha as (r & Hin & Hm).
    unfold rs_of in Hin. apply in_map_iff in Hin as (p & E & Hp). inversion E; subst.
    apply In_nth_error in Hp as (i & Hn). pose proof (nth_error_In _ _ Hn) as Hp.
    apply (la_holds_spec p _ _ Hp) in Hl.
    exists i. split; [|split; [exact Hk|]].
    + exists p. split; [exact Hn|]. split; [reflexivity|]. exists k, l. auto 10.
    + exists p. auto.
  - intros (i & _ & Hk & p & Hn & -> & Hm & Hl). pose proof (nth_error_In _ _ Hn) as Hp. split; [exact Hk|]. split.
    + apply (Heq _ _ (firstn_nonempty s k Hk)). exists (sp_re p). split; [|exact Hm].
      unfold rs_of. apply in_map_iff. exists p. auto.
    + apply (la_holds_spec p _ _ Hp). exact Hl.
Qed.

Theorem find_mode_eq_best_cand_la s : find_mode tbl M s = Ok (best_cand leaf ps s).
Proof.
  pose proof (find_mode_spec tbl M Mok s) as Hf.
  destruct (find_mode tbl M s) as [[[t e]|]|] eqn:Ef; [| |destruct Hf].
  - destruct Hf as (k & l & He & Hc & Hmax).
    apply mcand_scand in Hc as Hcs. destruct Hcs as (i & Hsc & Hk & p & Hn & Ht & Hm & Hl).
    destruct (best_cand leaf ps s) as [[t2 e2]|] eqn:Eb.
    + destruct (best_cand_first leaf ps s t2 e2 Eb) as (x2 & i2 & Hsc2 & Hmax2 & Hfirst2).
      (* the specification's winner is a candidate of the automaton *)
      pose proof Hsc2 as (p2 & Hn2 & Ht2 & k2 & l2 & Hk2 & Hm2 & He2 & Hl2 & Hx2).
      assert (Hc2 : MCand tbl M s k2 l2 t2).
      { apply mcand_scand. exists i2. split; [rewrite <- He2, <- Hx2; exact Hsc2|]. split; [exact Hk2|]. exists p2. auto. }
      specialize (Hmax _ _ _ Hc2). rewrite <- He in Hsc. specialize (Hmax2 _ _ _ _ Hsc).
      rewrite <- He2, <- Hx2 in Hmax. rewrite Ht, (idx_of i p Hn), Ht2, (idx_of i2 p2 Hn2) in Hmax.
      assert (Hx : x2 = e + l) by lia. assert (Hi : i = i2) by lia. subst i2.
      rewrite Hn in Hn2. inversion Hn2; subst p2. subst t t2.
      (* ends: each is the earliest among the ties *)
      assert (e2 <= e). { apply (Hfirst2 (sp_tok p) e). rewrite Hx. exact Hsc. }
      assert (e <= e2).
      { (* find_from_first on the automaton *)
        pose proof (find_from_first tbl (main M) (la_of tbl (las M)) (la_of_ok tbl M Mok) (proj1 Mok) s (sp_tok p) e k l) as Hff.
        unfold find_mode in Ef. specialize (Hff Ef He).
        assert (Cc : FindFromProofs.Cand tbl (main M) (la_of tbl (las M)) s k l (sp_tok p)).
        { destruct Hc as (A1 & A2 & A3). split; [exact A1|]. split; [exact A2|]. apply (la_of_spec tbl M Mok). exact A3. }
        assert (Cc2 : FindFromProofs.Cand tbl (main M) (la_of tbl (las M)) s k2 l2 (sp_tok p)).
        { destruct Hc2 as (A1 & A2 & A3). split; [exact A1|]. split; [exact A2|]. apply (la_of_spec tbl M Mok). exact A3. }
        specialize (Hff Cc k2 l2 (sp_tok p) Cc2). rewrite <- He2 in Hff. apply Hff.
        unfold FindFromProofs.le_c. cbn [ext tk]. right. split; [lia|lia]. }
      assert (Hee : e = e2) by lia. rewrite Hee. reflexivity.
    + exfalso. pose proof (best_cand_spec leaf ps s) as Hb. rewrite Eb in Hb. exact (Hb _ _ _ _ Hsc).
  - destruct (best_cand leaf ps s) as [[t2 e2]|] eqn:Eb; [|reflexivity].
    exfalso. destruct (best_cand_first leaf ps s t2 e2 Eb) as (x2 & i2 & Hsc2 & _).
    pose proof Hsc2 as (p2 & Hn2 & Ht2 & k2 & l2 & Hk2 & Hm2 & He2 & Hl2 & Hx2).
    apply (Hf k2 l2 t2). apply mcand_scand. exists i2. split; [rewrite <- He2, <- Hx2; exact Hsc2|]. split; [exact Hk2|]. exists p2. auto.
Qed.
End Agree2.
