(* LinesProofs.v — line/column bookkeeping of the iterator (C09).

   Part 1: the true line starts of an input, the specification `pos_spec` of a position, and an
           abstract bookkeeping machine (consume one character / exhaustion / reset) with its
           invariant `BkInv input s F`, F being the ghost frontier (the furthest cursor position ever
           reached): the line vector is strictly sorted, contains 0, contains ONLY true line
           starts and contains EVERY true line start strictly below F.
   Part 2: every operation of Iter.v acts on (cursor, it_last_char, it_lines) as a composition
           of the abstract steps; the invariant `LInv nmodes st F` and its preservation by every
           operation and by every history whose resets go to already scanned offsets.
   Part 3: the position theorems. *)
From Coq Require Import Sorting.Sorted.
From Scnr Require Import Base Automaton FindFrom Iter IterRun IterProofs HistoryProofs.

(* ================================================================================== *)
(* Part 1 — specification and abstract machine                                         *)
(* ================================================================================== *)

(* true line starts: 0 and every offset just behind a '\n' *)
Fixpoint starts_from (p:nat) (s:list N) : list nat :=
  match s with
  | [] => []
  | c :: s' => if N.eqb c NL then (p + len_utf8 c) :: starts_from (p + len_utf8 c) s'
               else starts_from (p + len_utf8 c) s'
  end.
Definition starts (input:list N) : list nat := 0 :: starts_from 0 input.
Definition is_start (input:list N) (x:nat) : Prop := In x (starts input).

(* number of elements <= o, greatest element <= o (0 if there is none) *)
Definition cnt_le (o:nat) (l:list nat) : nat := length (filter (fun x => x <=? o) l).
Definition max_le (o:nat) (l:list nat) : nat := fold_right Nat.max 0 (filter (fun x => x <=? o) l).

(* THE SPECIFICATION: line = number of true line starts <= o (= 1 + number of '\n' that end at
   or before o, lemma cnt_le_starts below), column = byte distance to the greatest true line
   start <= o, plus 1 *)
Definition line_start_of (input:list N) (o:nat) : nat := max_le o (starts input).
Definition pos_spec (input:list N) (o:nat) : nat * nat :=
  (cnt_le o (starts input), o - line_start_of input o + 1).
(* the position "behind the line break, still on the line of the break" of an offset b > 0 *)
Definition pos_after_break (input:list N) (b:nat) : nat * nat :=
  (fst (pos_spec input (b - 1)), b - line_start_of input (b - 1) + 1).

Definition last_of (pre:list N) : N := last pre 0%N.

(* ---------- readable characterisations of the specification ---------- *)
(* the number of '\n' characters of s (which starts at offset p) that end at or before o *)
Fixpoint nl_ending_by (p:nat) (s:list N) (o:nat) : nat :=
  match s with
  | [] => 0
  | c :: s' => (if N.eqb c NL && (p + len_utf8 c <=? o) then 1 else 0) + nl_ending_by (p + len_utf8 c) s' o
  end.

Lemma cnt_le_starts_from o : forall s p, cnt_le o (starts_from p s) = nl_ending_by p s o.
Proof.
  unfold cnt_le. induction s as [|c s IH]; intros p; cbn [starts_from nl_ending_by]; [reflexivity|].
  destruct (N.eqb c NL); cbn [andb].
  - cbn [filter]. destruct (p + len_utf8 c <=? o); cbn [length]; rewrite IH; reflexivity.
  - rewrite IH. reflexivity.
Qed.

(* line number = one plus the number of '\n' that end at or before o *)
Lemma cnt_le_starts input o : cnt_le o (starts input) = 1 + nl_ending_by 0 input o.
Proof.
  rewrite <- cnt_le_starts_from. unfold starts, cnt_le. cbn [filter]. cbn [Nat.leb length]. reflexivity.
Qed.

Lemma nl_ending_by_none o : forall s p, o <= p -> nl_ending_by p s o = 0.
Proof.
  induction s as [|c s IH]; intros p H; cbn [nl_ending_by]; [reflexivity|].
  pose proof (len_utf8_pos c) as Hc.
  assert (E : p + len_utf8 c <=? o = false) by (apply Nat.leb_gt; lia). rewrite E, andb_false_r.
  rewrite IH by lia. reflexivity.
Qed.

(* for an offset on a character boundary: one plus the number of '\n' in the prefix *)
Lemma nl_ending_by_prefix b : forall a p,
  nl_ending_by p (a ++ b) (p + blen a) = count_occ N.eq_dec a NL.
Proof.
  induction a as [|c a IH]; intros p.
  - cbn [app blen count_occ]. apply nl_ending_by_none. lia.
  - cbn [app blen nl_ending_by count_occ].
    assert (E : p + len_utf8 c <=? p + (len_utf8 c + blen a) = true) by (apply Nat.leb_le; lia).
    rewrite E, andb_true_r.
    replace (p + (len_utf8 c + blen a)) with (p + len_utf8 c + blen a) by lia. rewrite IH.
    destruct (N.eq_dec c NL) as [->|Hn].
    + rewrite N.eqb_refl. reflexivity.
    + apply N.eqb_neq in Hn. rewrite Hn. reflexivity.
Qed.

Lemma line_of_boundary a b :
  fst (pos_spec (a ++ b) (blen a)) = 1 + count_occ N.eq_dec a NL.
Proof.
  unfold pos_spec. cbn [fst]. rewrite cnt_le_starts. f_equal.
  apply (nl_ending_by_prefix b a 0).
Qed.

(* ---------- line starts ---------- *)
Lemma starts_from_lb p s x : In x (starts_from p s) -> p < x.
Proof.
  revert p; induction s as [|c s IH]; intros p; cbn [starts_from]; [intros []|].
  pose proof (len_utf8_pos c). destruct (N.eqb c NL).
  - intros [<-|H']; [lia|]. apply IH in H'. lia.
  - intros H'. apply IH in H'. lia.
Qed.

Lemma starts_from_in p s x :
  In x (starts_from p s) <-> exists a b, s = a ++ NL :: b /\ x = p + blen a + len_utf8 NL.
Proof.
  revert p; induction s as [|c s IH]; intros p; cbn [starts_from].
  - split; [intros []|]. intros (a & b & E & _). destruct a; discriminate.
  - destruct (N.eqb c NL) eqn:Ec.
    + apply N.eqb_eq in Ec; subst c. cbn [In]. rewrite IH. split.
      * intros [<-|(a & b & -> & ->)].
        -- exists [], s. cbn [app blen]. split; [reflexivity|lia].
        -- exists (NL :: a), b. cbn [app blen]. split; [reflexivity|lia].
      * intros (a & b & E & ->). destruct a as [|c a]; cbn [app] in E; inversion E; subst.
        -- left. cbn [blen]. lia.
        -- right. exists a, b. split; [reflexivity|]. cbn [blen]. lia.
    + rewrite IH. apply N.eqb_neq in Ec. split.
      * intros (a & b & -> & ->). exists (c :: a), b. cbn [app blen]. split; [reflexivity|lia].
      * intros (a & b & E & ->). destruct a as [|c' a]; cbn [app] in E; inversion E; subst; [congruence|].
        exists a, b. split; [reflexivity|]. cbn [blen]. lia.
Qed.

(* a true line start is 0 or the end of a prefix that ends with '\n' *)
Lemma is_start_spec input x :
  is_start input x <-> x = 0 \/ exists a b, input = a ++ NL :: b /\ x = blen (a ++ [NL]).
Proof.
  unfold is_start, starts. cbn [In]. rewrite starts_from_in. split.
  - intros [<-|(a & b & E & ->)]; [left; reflexivity|right]. exists a, b. split; [exact E|].
    rewrite blen_app. cbn [blen]. lia.
  - intros [->|(a & b & E & ->)]; [left; reflexivity|right]. exists a, b. split; [exact E|].
    rewrite blen_app. cbn [blen]. lia.
Qed.

Lemma is_start_dec input x : {is_start input x} + {~ is_start input x}.
Proof. apply in_dec, Nat.eq_dec. Qed.

(* ---------- strictly sorted lists ---------- *)
Lemma ss_iff l : strictly_sorted l = true <-> StronglySorted lt l.
Proof.
  induction l as [|x l IH].
  - split; [constructor|reflexivity].
  - rewrite strictly_sorted_cons_iff, IH. split.
    + intros [Ha Hs]. constructor; [exact Hs|]. apply Forall_forall. exact Ha.
    + intros H. inversion H as [|? ? Hs Hf]; subst. split; [|exact Hs]. apply Forall_forall. exact Hf.
Qed.

Lemma ins_sorted x l : StronglySorted lt l -> StronglySorted lt (insert x l).
Proof. intros H. apply ss_iff, insert_sorted, ss_iff, H. Qed.

Lemma filter_le_none o l : Forall (fun y => o < y) l -> filter (fun x => x <=? o) l = [].
Proof.
  induction 1 as [|y l Hy _ IH]; cbn [filter]; [reflexivity|].
  destruct (y <=? o) eqn:E; [apply Nat.leb_le in E; lia|exact IH].
Qed.

Lemma sorted_filter_prefix o l : StronglySorted lt l ->
  filter (fun x => x <=? o) l = firstn (cnt_le o l) l.
Proof.
  unfold cnt_le. induction 1 as [|z l Hs IH Hf]; cbn [filter]; [reflexivity|].
  destruct (z <=? o) eqn:E.
  - cbn [length firstn]. f_equal. exact IH.
  - apply Nat.leb_gt in E. rewrite filter_le_none; [reflexivity|].
    rewrite Forall_forall in *. intros y Hy. specialize (Hf y Hy). lia.
Qed.

(* the binary search of `position` (count_le) counts the elements <= o *)
Lemma count_le_cnt_le o l : StronglySorted lt l -> count_le o l = cnt_le o l.
Proof.
  unfold cnt_le. induction 1 as [|z l Hs IH Hf]; cbn [count_le filter]; [reflexivity|].
  destruct (z <=? o) eqn:E.
  - cbn [length]. f_equal. exact IH.
  - apply Nat.leb_gt in E. rewrite filter_le_none; [reflexivity|].
    rewrite Forall_forall in *. intros y Hy. specialize (Hf y Hy). lia.
Qed.

Lemma cnt_le_length o l : cnt_le o l <= length l.
Proof. unfold cnt_le. induction l as [|a l IH]; cbn [filter length]; [lia|]. destruct (a <=? o); cbn [length]; lia. Qed.

(* on a strictly sorted list containing an element <= o, nth (k-1) is the greatest element <= o *)
Lemma sorted_nth_max o l : StronglySorted lt l -> (exists x, In x l /\ x <= o) ->
  nth (cnt_le o l - 1) l 0 = max_le o l.
Proof.
  intros Hs Hex. unfold max_le. rewrite (sorted_filter_prefix o l Hs).
  set (k := cnt_le o l).
  assert (Hk : 0 < k).
  { unfold k, cnt_le. destruct Hex as (x & Hx & Hle).
    assert (Hin : In x (filter (fun x => x <=? o) l)) by (apply filter_In; split; [exact Hx|apply Nat.leb_le; exact Hle]).
    destruct (filter (fun x0 => x0 <=? o) l); [contradiction|cbn [length]; lia]. }
  assert (Hkl : k <= length l) by apply cnt_le_length.
  clearbody k. clear Hex. revert k Hk Hkl. induction Hs as [|z l Hs IH Hf]; intros k Hk Hkl; cbn [length] in Hkl.
  - lia.
  - destruct k as [|k]; [lia|]. cbn [firstn fold_right]. replace (S k - 1) with k by lia.
    destruct k as [|k].
    + cbn. lia.
    + cbn [nth]. specialize (IH (S k)). replace (S k - 1) with k in IH by lia.
      rewrite IH by lia.
      destruct l as [|y l]; [cbn in Hkl; lia|]. cbn [firstn fold_right].
      inversion Hf; subst. lia.
Qed.

Lemma starts_from_sorted p s0 : StronglySorted lt (starts_from p s0).
Proof.
  revert p; induction s0 as [|c s0 IH]; intros p; cbn [starts_from]; [constructor|].
  destruct (N.eqb c NL); [|apply IH]. constructor; [apply IH|].
  rewrite Forall_forall. intros x Hx. apply starts_from_lb in Hx. exact Hx.
Qed.
Lemma starts_sorted input : StronglySorted lt (starts input).
Proof.
  unfold starts. constructor; [apply starts_from_sorted|].
  rewrite Forall_forall. intros x Hx. apply starts_from_lb in Hx. exact Hx.
Qed.

Lemma filter_sorted (f:nat->bool) l : StronglySorted lt l -> StronglySorted lt (filter f l).
Proof.
  induction 1 as [|z l Hs IH Hf]; cbn [filter]; [constructor|].
  destruct (f z); [|exact IH]. constructor; [exact IH|].
  rewrite Forall_forall in *. intros y Hy. apply filter_In in Hy as [Hy _]. apply Hf, Hy.
Qed.

Lemma sorted_ext l : forall l', StronglySorted lt l -> StronglySorted lt l' ->
  (forall x, In x l <-> In x l') -> l = l'.
Proof.
  induction l as [|z l IH]; intros l' Hs Hs' Hm.
  - destruct l' as [|z' l']; [reflexivity|]. exfalso. apply (Hm z'). left; reflexivity.
  - destruct l' as [|z' l']; [exfalso; apply (Hm z); left; reflexivity|].
    inversion Hs as [|? ? Hs1 Hf1]; inversion Hs' as [|? ? Hs2 Hf2]; subst.
    rewrite Forall_forall in Hf1, Hf2.
    assert (z = z').
    { destruct (proj1 (Hm z) (or_introl eq_refl)) as [->|Hin]; [reflexivity|].
      destruct (proj2 (Hm z') (or_introl eq_refl)) as [->|Hin']; [reflexivity|].
      specialize (Hf1 _ Hin'). specialize (Hf2 _ Hin). lia. }
    subst z'. f_equal. apply IH; [exact Hs1|exact Hs2|]. intros x. split; intros Hx.
    + destruct (proj1 (Hm x) (or_intror Hx)) as [->|Hin]; [|exact Hin]. specialize (Hf1 _ Hx). lia.
    + destruct (proj2 (Hm x) (or_intror Hx)) as [->|Hin]; [|exact Hin]. specialize (Hf2 _ Hx). lia.
Qed.

(* the greatest true line start <= o *)
Lemma max_le_spec o l : In 0 l ->
  In (max_le o l) l /\ max_le o l <= o /\ forall x, In x l -> x <= o -> x <= max_le o l.
Proof.
  intros H0. unfold max_le.
  assert (G : forall l', (forall x, In x l' -> In x l /\ x <= o) ->
            (fold_right Nat.max 0 l' = 0 \/ In (fold_right Nat.max 0 l') l') /\
            forall x, In x l' -> x <= fold_right Nat.max 0 l').
  { induction l' as [|y l' IH]; intros Hall; cbn [fold_right].
    - split; [left; reflexivity|intros x []].
    - destruct IH as [IH1 IH2]; [intros x Hx; apply Hall; right; exact Hx|]. split.
      + destruct (Nat.max_spec y (fold_right Nat.max 0 l')) as [[_ E]|[_ E]]; rewrite E.
        * destruct IH1 as [IH1|IH1]; [left; exact IH1|right; right; exact IH1].
        * right; left; reflexivity.
      + intros x [<-|Hx]; [lia|]. specialize (IH2 x Hx). lia. }
  destruct (G (filter (fun x => x <=? o) l)) as [G1 G2].
  { intros x Hx. apply filter_In in Hx as [Hx Hle]. apply Nat.leb_le in Hle. auto. }
  split; [|split].
  - destruct G1 as [G1|G1]; [rewrite G1; exact H0|]. apply filter_In in G1 as [G1 _]. exact G1.
  - destruct G1 as [G1|G1]; [rewrite G1; lia|]. apply filter_In in G1 as [_ G1]. apply Nat.leb_le in G1. exact G1.
  - intros x Hx Hle. apply G2. apply filter_In. split; [exact Hx|apply Nat.leb_le; exact Hle].
Qed.

Lemma line_start_of_spec input o :
  is_start input (line_start_of input o) /\ line_start_of input o <= o /\
  forall x, is_start input x -> x <= o -> x <= line_start_of input o.
Proof. apply max_le_spec. left. reflexivity. Qed.

(* ---------- prefixes and boundaries ---------- *)
Lemma split_unique a : forall a' b b', a ++ b = a' ++ b' -> blen a = blen a' -> a = a' /\ b = b'.
Proof.
  induction a as [|c a IH]; intros a' b b' E L.
  - destruct a' as [|c' a']; [auto|]. cbn [blen] in L. pose proof (len_utf8_pos c'). lia.
  - destruct a' as [|c' a']; [cbn [blen] in L; pose proof (len_utf8_pos c); lia|].
    cbn [app] in E. inversion E; subst. cbn [blen] in L. destruct (IH a' b b') as [E1 E2]; [assumption|lia|].
    subst. auto.
Qed.

Lemma no_boundary_inside pre : forall c r a b,
  pre ++ c :: r = a ++ b -> blen pre < blen a -> blen pre + len_utf8 c <= blen a.
Proof.
  induction pre as [|d pre IH]; intros c r a b E L.
  - destruct a as [|c' a]; [cbn [blen] in L; lia|]. cbn [app] in E. inversion E; subst. cbn [blen]. lia.
  - destruct a as [|c' a]; [cbn [blen] in L; lia|]. cbn [app] in E. inversion E; subst. cbn [blen] in *.
    match goal with H : pre ++ c :: r = a ++ b |- _ => specialize (IH c r a b H) end. lia.
Qed.

Lemma last_of_snoc pre c : last_of (pre ++ [c]) = c.
Proof. unfold last_of. apply last_last. Qed.

Lemma start_at_cursor pre rest0 : is_start (pre ++ rest0) (blen pre) -> pre = [] \/ last_of pre = NL.
Proof.
  rewrite is_start_spec. intros [E|(a & b & E & L)].
  - destruct pre as [|c pre]; [left; reflexivity|]. cbn [blen] in E. pose proof (len_utf8_pos c). lia.
  - right. replace (a ++ NL :: b) with ((a ++ [NL]) ++ b) in E by (rewrite <- app_assoc; reflexivity).
    destruct (split_unique pre (a ++ [NL]) rest0 b E L) as [-> _]. apply last_of_snoc.
Qed.
Lemma cursor_is_start pre rest0 : pre <> [] -> last_of pre = NL -> is_start (pre ++ rest0) (blen pre).
Proof.
  intros Hne Hl. rewrite is_start_spec. right.
  destruct (exists_last Hne) as (a & c & ->). rewrite last_of_snoc in Hl. subst c.
  exists a, rest0. split; [|reflexivity]. rewrite <- app_assoc. reflexivity.
Qed.
Lemma start_is_boundary input x : is_start input x -> exists a b, input = a ++ b /\ x = blen a.
Proof.
  rewrite is_start_spec. intros [->|(a & b & -> & ->)].
  - exists [], input. auto.
  - exists (a ++ [NL]), b. rewrite <- app_assoc. auto.
Qed.

(* ---------- the bookkeeping state machine ---------- *)
Record bk := { bk_pre : list N; bk_rest : list N; bk_lc : N; bk_lines : list nat }.
Definition bk_cur (s:bk) : nat := blen (bk_pre s).

Section Machine.
Variable input : list N.

Definition bk_consume1 (s:bk) : bk :=
  match bk_rest s with
  | [] => s
  | c :: r => {| bk_pre := bk_pre s ++ [c]; bk_rest := r; bk_lc := c;
                 bk_lines := if N.eqb (bk_lc s) NL then insert (bk_cur s) (bk_lines s) else bk_lines s |}
  end.
Definition bk_exhaust (s:bk) : bk :=
  {| bk_pre := bk_pre s; bk_rest := bk_rest s; bk_lc := 0%N;
     bk_lines := if N.eqb (bk_lc s) NL then insert (blen input) (bk_lines s) else bk_lines s |}.
Definition bk_reset (s:bk) (pre' rest':list N) : bk :=
  {| bk_pre := pre'; bk_rest := rest'; bk_lc := last_of pre'; bk_lines := bk_lines s |}.

Definition BkInv (s:bk) (F:nat) : Prop :=
  bk_pre s ++ bk_rest s = input /\ StronglySorted lt (bk_lines s) /\ In 0 (bk_lines s) /\
  (forall x, In x (bk_lines s) -> is_start input x) /\
  (forall x, is_start input x -> x < F -> In x (bk_lines s)) /\
  bk_cur s <= F <= blen input /\
  (bk_lc s = last_of (bk_pre s) \/
   (bk_rest s = [] /\ bk_lc s = 0%N /\ (bk_pre s <> [] -> last_of (bk_pre s) = NL -> In (bk_cur s) (bk_lines s)))).

Definition bk_init : bk := {| bk_pre := []; bk_rest := input; bk_lc := 0%N; bk_lines := [0] |}.
Lemma BkInv_init : BkInv bk_init 0.
Proof.
  unfold BkInv, bk_init, bk_cur; cbn [bk_pre bk_rest bk_lc bk_lines blen app].
  split; [reflexivity|]. split; [repeat constructor|]. split; [left; reflexivity|].
  split; [intros x [<-|[]]; left; reflexivity|]. split; [intros x _ Hx; lia|].
  split; [lia|]. left. reflexivity.
Qed.

Lemma BkInv_consume1 s F : BkInv s F -> BkInv (bk_consume1 s) (Nat.max F (bk_cur (bk_consume1 s))).
Proof.
  intros (E & Hs & H0 & Hsound & Hcompl & (HcF & HFl) & Hlc). unfold bk_consume1.
  destruct (bk_rest s) as [|c r] eqn:Er.
  - replace (Nat.max F (bk_cur s)) with F by lia. unfold BkInv. rewrite Er.
    split; [exact E|]. split; [exact Hs|]. split; [exact H0|]. split; [exact Hsound|].
    split; [exact Hcompl|]. split; [split; assumption|exact Hlc].
  - assert (Hcur' : bk_cur {| bk_pre := bk_pre s ++ [c]; bk_rest := r; bk_lc := c;
                 bk_lines := if N.eqb (bk_lc s) NL then insert (bk_cur s) (bk_lines s) else bk_lines s |} = bk_cur s + len_utf8 c).
    { unfold bk_cur; cbn [bk_pre]. rewrite blen_app. cbn [blen]. lia. }
    rewrite Hcur'. unfold BkInv; cbn [bk_pre bk_rest bk_lc bk_lines].
    assert (Hlen : bk_cur s + len_utf8 c <= blen input).
    { rewrite <- E, blen_app. unfold bk_cur. cbn [blen]. lia. }
    destruct Hlc as [Hlc|(Hr & _)]; [|congruence].
    assert (Hstartcur : is_start input (bk_cur s) -> In (bk_cur s) (if N.eqb (bk_lc s) NL then insert (bk_cur s) (bk_lines s) else bk_lines s)).
    { intros Hst. rewrite <- E in Hst. apply start_at_cursor in Hst as [Hp|Hl].
      - unfold bk_cur. rewrite Hp. cbn [blen]. destruct (N.eqb (bk_lc s) NL); [apply insert_in; right|]; exact H0.
      - rewrite Hlc, Hl. cbn. apply insert_in; left; reflexivity. }
    split; [rewrite <- app_assoc; cbn [app]; exact E|].
    split; [destruct (N.eqb (bk_lc s) NL); [apply ins_sorted|]; exact Hs|].
    split; [destruct (N.eqb (bk_lc s) NL); [apply insert_in; right|]; exact H0|].
    split; [|split; [|split; [|left; symmetry; apply last_of_snoc]]].
    + intros x Hx. destruct (N.eqb (bk_lc s) NL) eqn:El; [|apply Hsound, Hx].
      apply insert_in in Hx as [->|Hx]; [|apply Hsound, Hx].
      apply N.eqb_eq in El. rewrite Hlc in El.
      destruct (bk_pre s) as [|d p] eqn:Ep.
      * unfold bk_cur; rewrite Ep. cbn [blen]. left; reflexivity.
      * unfold bk_cur. rewrite <- E, <- Ep. apply cursor_is_start; [rewrite Ep; discriminate|rewrite Ep; exact El].
    + intros x Hst Hlt.
      destruct (Nat.lt_ge_cases x F) as [HxF|HxF].
      * destruct (N.eqb (bk_lc s) NL); [apply insert_in; right|]; apply Hcompl; assumption.
      * (* F <= x < cur + w c, and cur <= F: x must be the cursor *)
        destruct (start_is_boundary _ _ Hst) as (a & b & Ea & ->).
        destruct (Nat.eq_dec (blen a) (bk_cur s)) as [Heq|Hne].
        -- rewrite Heq in *. apply Hstartcur; exact Hst.
        -- exfalso. assert (Hlt2 : bk_cur s < blen a) by lia.
           pose proof (no_boundary_inside (bk_pre s) c r a b) as Hn.
           rewrite E in Hn. specialize (Hn Ea Hlt2). unfold bk_cur in *. lia.
    + lia.
Qed.

Lemma BkInv_exhaust s F : BkInv s F -> bk_rest s = [] -> BkInv (bk_exhaust s) F.
Proof.
  intros (E & Hs & H0 & Hsound & Hcompl & (HcF & HFl) & Hlc) Hr. unfold bk_exhaust, BkInv; cbn [bk_pre bk_rest bk_lc bk_lines].
  assert (Hb : blen input = bk_cur s). { rewrite <- E, Hr, app_nil_r. reflexivity. }
  destruct Hlc as [Hlc|(_ & Hz & Hrec)].
  - split; [exact E|].
    split; [destruct (N.eqb (bk_lc s) NL); [apply ins_sorted|]; exact Hs|].
    split; [destruct (N.eqb (bk_lc s) NL); [apply insert_in; right|]; exact H0|].
    split; [|split; [|split; [split; assumption|]]].
    + intros x Hx. destruct (N.eqb (bk_lc s) NL) eqn:El; [|apply Hsound, Hx].
      apply insert_in in Hx as [->|Hx]; [|apply Hsound, Hx]. apply N.eqb_eq in El.
      rewrite Hlc in El. rewrite Hb. destruct (bk_pre s) as [|d p] eqn:Ep.
      * unfold bk_cur; rewrite Ep. left; reflexivity.
      * unfold bk_cur. rewrite <- E, <- Ep. apply cursor_is_start; rewrite Ep; [discriminate|exact El].
    + intros x Hst Hlt. destruct (N.eqb (bk_lc s) NL); [apply insert_in; right|]; apply Hcompl; assumption.
    + right. split; [exact Hr|]. split; [reflexivity|]. intros Hne Hl. rewrite Hlc, Hl. cbn. rewrite Hb.
      apply insert_in; left; reflexivity.
  - rewrite Hz. cbn.
    split; [exact E|]. split; [exact Hs|]. split; [exact H0|]. split; [exact Hsound|].
    split; [exact Hcompl|]. split; [split; assumption|]. right. split; [exact Hr|]. split; [reflexivity|exact Hrec].
Qed.

(* after the exhaustion step the line start at the end of the input (if it is one) is recorded *)
Lemma exhaust_records_end s F : BkInv s F -> bk_rest s = [] ->
  is_start input (bk_cur s) -> In (bk_cur s) (bk_lines (bk_exhaust s)).
Proof.
  intros HI Hr Hst. pose proof (BkInv_exhaust s F HI Hr) as (E' & _ & H0' & _ & _ & _ & Hlc').
  destruct HI as (E & _). rewrite <- E in Hst. apply start_at_cursor in Hst.
  change (bk_cur s) with (bk_cur (bk_exhaust s)).
  destruct Hlc' as [Hlc'|(_ & _ & Hrec)].
  - (* lc = 0 = last of pre: pre is empty or ends with '\0', not with '\n' *)
    cbn [bk_exhaust bk_lc bk_pre] in Hlc'. destruct Hst as [Hp|Hl].
    + unfold bk_cur. cbn [bk_exhaust bk_pre]. rewrite Hp. exact H0'.
    + rewrite Hl in Hlc'. discriminate.
  - cbn [bk_exhaust bk_pre] in Hrec. destruct Hst as [Hp|Hl].
    + unfold bk_cur. cbn [bk_exhaust bk_pre]. rewrite Hp. exact H0'.
    + apply Hrec; [|exact Hl]. intros Hp. rewrite Hp in Hl. discriminate.
Qed.

(* a reset to an already scanned boundary *)
Lemma BkInv_reset s F pre' rest' : BkInv s F -> pre' ++ rest' = input -> blen pre' <= F -> BkInv (bk_reset s pre' rest') F.
Proof.
  intros (E & Hs & H0 & Hsound & Hcompl & (HcF & HFl) & Hlc) E' Hle.
  unfold bk_reset, BkInv, bk_cur; cbn [bk_pre bk_rest bk_lc bk_lines].
  split; [exact E'|]. split; [exact Hs|]. split; [exact H0|]. split; [exact Hsound|].
  split; [exact Hcompl|]. split; [split; assumption|left; reflexivity].
Qed.

(* ---------- the position theorems on the abstract machine ---------- *)
Definition lpos (lns:list nat) (o:nat) : nat * nat :=
  let k := cnt_le o lns in (k, o - nth (k - 1) lns 0 + 1).

(* exact whenever o is not beyond the frontier and, if o is a line start, it is recorded *)
Theorem lpos_correct_gen s F o : BkInv s F ->
  o <= F -> (is_start input o -> In o (bk_lines s)) ->
  lpos (bk_lines s) o = pos_spec input o.
Proof.
  intros (E & Hs & H0 & Hsound & Hcompl & (HcF & HFl) & Hlc) Ho Hrec.
  assert (Hf : filter (fun x => x <=? o) (bk_lines s) = filter (fun x => x <=? o) (starts input)).
  { apply sorted_ext; try apply filter_sorted; [exact Hs|apply starts_sorted|].
    intros x. rewrite !filter_In. split; intros [Hx Hle]; (split; [|exact Hle]).
    - apply Hsound; exact Hx.
    - apply Nat.leb_le in Hle.
      destruct (Nat.eq_dec x o) as [->|Hne]; [apply Hrec; exact Hx|]. apply Hcompl; [exact Hx|lia]. }
  unfold lpos, pos_spec, line_start_of. unfold cnt_le at 1 3. rewrite Hf. f_equal. f_equal. f_equal.
  rewrite sorted_nth_max; [|exact Hs|exists 0; split; [exact H0|lia]].
  unfold max_le. rewrite Hf. reflexivity.
Qed.

Corollary lpos_correct s F o : BkInv s F ->
  o < F \/ (o <= F /\ ~ is_start input o) ->
  lpos (bk_lines s) o = pos_spec input o.
Proof.
  intros HI Ho. pose proof HI as (_ & _ & _ & _ & Hcompl & _).
  apply (lpos_correct_gen s F o HI).
  - destruct Ho as [Ho|[Ho _]]; lia.
  - intros Hst. destruct Ho as [Ho|[_ Hn]]; [apply Hcompl; assumption|contradiction].
Qed.

(* at the frontier, when the frontier is a line start whose first character was not consumed
   yet (so it is not recorded), the answer is computed from the starts below it: the position
   behind the line break, on the line of the break *)
Theorem lpos_unrecorded_frontier s F : BkInv s F -> ~ In F (bk_lines s) -> 0 < F ->
  lpos (bk_lines s) F = pos_after_break input F.
Proof.
  intros (E & Hs & H0 & Hsound & Hcompl & (HcF & HFl) & Hlc) Hnin HF.
  assert (Hf : filter (fun x => x <=? F) (bk_lines s) = filter (fun x => x <=? F - 1) (starts input)).
  { apply sorted_ext; try apply filter_sorted; [exact Hs|apply starts_sorted|].
    intros x. rewrite !filter_In. split; intros [Hx Hle]; split.
    - apply Hsound; exact Hx.
    - apply Nat.leb_le in Hle. apply Nat.leb_le. destruct (Nat.eq_dec x F) as [->|Hne]; [contradiction|lia].
    - apply Nat.leb_le in Hle. apply Hcompl; [exact Hx|lia].
    - apply Nat.leb_le in Hle. apply Nat.leb_le. lia. }
  unfold lpos, pos_after_break, pos_spec, line_start_of. cbn [fst]. unfold cnt_le at 1 3. rewrite Hf. f_equal. f_equal. f_equal.
  rewrite sorted_nth_max; [|exact Hs|exists 0; split; [exact H0|lia]].
  unfold max_le. rewrite Hf. reflexivity.
Qed.
End Machine.

(* ================================================================================== *)
(* Part 2 — the operations of Iter.v are compositions of the abstract steps            *)
(* ================================================================================== *)

(* variants of the abstract steps on explicit records *)
Lemma BkBkInv_consume1' input p c r l lns F :
  BkInv input {| bk_pre := p; bk_rest := c :: r; bk_lc := l; bk_lines := lns |} F ->
  BkInv input {| bk_pre := p ++ [c]; bk_rest := r; bk_lc := c;
               bk_lines := if N.eqb l NL then insert (blen p) lns else lns |} (Nat.max F (blen p + len_utf8 c)).
Proof.
  intros H. apply BkInv_consume1 in H. unfold bk_consume1, bk_cur in H. cbn [bk_pre bk_rest bk_lc bk_lines] in H.
  rewrite blen_app in H. cbn [blen] in H. rewrite Nat.add_0_r in H. exact H.
Qed.

Lemma BkInv_cur_le input s F : BkInv input s F -> bk_cur s <= F.
Proof. intros (_ & _ & _ & _ & _ & (H & _) & _). exact H. Qed.

(* a suffix at a byte offset is a split of the input; char_before is the last character of
   the prefix *)
Lemma last_nonempty_default (p:list N) d d' : p <> [] -> last p d = last p d'.
Proof.
  induction p as [|x p IH]; intros H; [congruence|]. destruct p as [|y p]; [reflexivity|].
  cbn [last] in *. apply IH. discriminate.
Qed.
Lemma last_cons_default (c:N) p d : last (c :: p) d = last p c.
Proof.
  destruct p as [|x p]; [reflexivity|].
  change (last (c :: x :: p) d) with (last (x :: p) d). apply last_nonempty_default. discriminate.
Qed.

Lemma drop_bytes_split : forall s o r, drop_bytes o s = Some r ->
  exists p, s = p ++ r /\ blen p = o /\ forall prev, char_before o s prev = last p prev.
Proof.
  induction s as [|c s IH]; intros o r H.
  - destruct o; cbn [drop_bytes] in H; [|discriminate]. inversion H; subst. exists []. cbn. auto.
  - destruct o as [|o'].
    + cbn [drop_bytes] in H. inversion H; subst. exists []. cbn. auto.
    + cbn [drop_bytes] in H. destruct (len_utf8 c <=? S o') eqn:E; [|discriminate].
      apply Nat.leb_le in E. destruct (IH _ _ H) as (p & -> & Hb & Hc).
      exists (c :: p). split; [reflexivity|]. split; [cbn [blen]; lia|].
      intros prev. cbn [char_before]. assert (E2 : len_utf8 c <=? S o' = true) by (apply Nat.leb_le; exact E).
      rewrite E2, Hc. symmetry. apply last_cons_default.
Qed.

(* the loop of advance_to = a sequence of bk_consume1 steps; the collected line starts do not
   depend on the line vector, so the single merge at the end equals the sequential insertion *)
Lemma advance_loop_inv input offset pos : forall rst rel l newp sts rst' rel' l' newp' sts',
  advance_loop offset pos rst rel l newp sts = (rst', rel', l', newp', sts') ->
  exists more, sts' = sts ++ more /\ rel <= rel' /\
  forall p lns F, blen p = rel + offset ->
    BkInv input {| bk_pre := p; bk_rest := rst; bk_lc := l; bk_lines := lns |} F ->
    exists p', blen p' = rel' + offset /\
      BkInv input {| bk_pre := p'; bk_rest := rst'; bk_lc := l';
                   bk_lines := fold_left (fun acc x => insert x acc) more lns |} (Nat.max F (rel' + offset)).
Proof.
  induction rst as [|c rst IH]; intros rel l newp sts rst' rel' l' newp' sts' H.
  - cbn [advance_loop] in H. inversion H; subst. exists []. split; [symmetry; apply app_nil_r|]. split; [lia|].
    intros p lns F Hp HI. exists p. split; [exact Hp|]. cbn [fold_left].
    pose proof (BkInv_cur_le _ _ _ HI) as Hc. unfold bk_cur in Hc. cbn [bk_pre] in Hc.
    replace (Nat.max F (rel' + offset)) with F by lia. exact HI.
  - cbn [advance_loop] in H.
    set (m1 := if N.eqb l NL then [rel + offset] else []).
    assert (Em : (if N.eqb l NL then sts ++ [rel + offset] else sts) = sts ++ m1).
    { unfold m1. destruct (N.eqb l NL); [reflexivity|symmetry; apply app_nil_r]. }
    rewrite Em in H.
    assert (Hstep : forall p lns F, blen p = rel + offset ->
              BkInv input {| bk_pre := p; bk_rest := c :: rst; bk_lc := l; bk_lines := lns |} F ->
              BkInv input {| bk_pre := p ++ [c]; bk_rest := rst; bk_lc := c;
                           bk_lines := fold_left (fun acc x => insert x acc) m1 lns |}
                  (Nat.max F (rel + len_utf8 c + offset))).
    { intros p lns F Hp HI. apply BkBkInv_consume1' in HI. rewrite Hp in HI.
      replace (rel + len_utf8 c + offset) with (rel + offset + len_utf8 c) by lia.
      unfold m1. destruct (N.eqb l NL); cbn [fold_left]; exact HI. }
    destruct (pos <=? rel + len_utf8 c) eqn:Ep.
    + inversion H; subst rst' rel' l' newp' sts'. exists m1. split; [reflexivity|]. split; [lia|].
      intros p lns F Hp HI. exists (p ++ [c]). split; [rewrite blen_app; cbn [blen]; lia|].
      apply Hstep; assumption.
    + apply IH in H as (more & -> & Hle & Hall). exists (m1 ++ more).
      split; [symmetry; apply app_assoc|]. split; [lia|].
      intros p lns F Hp HI.
      destruct (Hall (p ++ [c]) (fold_left (fun acc x => insert x acc) m1 lns) (Nat.max F (rel + len_utf8 c + offset)))
        as (p' & Hp' & HI').
      { rewrite blen_app. cbn [blen]. lia. }
      { apply Hstep; assumption. }
      exists p'. split; [exact Hp'|]. rewrite fold_left_app.
      replace (Nat.max F (rel' + offset)) with (Nat.max (Nat.max F (rel + len_utf8 c + offset)) (rel' + offset)) by lia.
      exact HI'.
Qed.

(* ---------- the bookkeeping invariant on iterator states ---------- *)
Definition bk_of (st:iter) (p:list N) : bk :=
  {| bk_pre := p; bk_rest := it_rest st; bk_lc := it_last_char st; bk_lines := it_lines st |}.

(* F is the ghost frontier: the furthest cursor position reached so far *)
Definition BInv (st:iter) (F:nat) : Prop :=
  exists p, blen p = apos st /\ BkInv (it_input st) (bk_of st p) F.

Lemma BInv_init sm input : BInv (find_iter sm input) 0.
Proof. exists []. split; [reflexivity|]. apply BkInv_init. Qed.

Lemma BInv_cur_le st F : BInv st F -> apos st <= F.
Proof. intros (p & Hp & HI). apply BkInv_cur_le in HI. unfold bk_cur in HI. cbn [bk_of bk_pre] in HI. lia. Qed.

Lemma BInv_frontier_le st F : BInv st F -> F <= blen (it_input st).
Proof. intros (p & _ & (_ & _ & _ & _ & _ & (_ & H) & _)). exact H. Qed.

Lemma BInv_lines st F : BInv st F -> StronglySorted lt (it_lines st) /\ In 0 (it_lines st).
Proof. intros (p & _ & (_ & Hs & H0 & _)). cbn [bk_of bk_lines] in *. auto. Qed.

Lemma BInv_set_mode st m F : BInv st F -> BInv (set_mode st m) F.
Proof. intros H. exact H. Qed.

Lemma merge_sorted_eq lns new : StronglySorted lt lns ->
  merge_line_offsets lns new = Ok (fold_left (fun acc x => insert x acc) new lns).
Proof. intros H. apply ss_iff in H. unfold merge_line_offsets. rewrite H. reflexivity. Qed.

(* a character skipped by next = bk_consume1 *)
Lemma B_record_skip st F c r st1 : BInv st F -> it_rest st = c :: r ->
  record_line_offset (set_rest st r (it_rel st + len_utf8 c)) (it_rel st + it_offset st) c = Ok st1 ->
  BInv st1 (Nat.max F (apos st1)) /\ it_input st1 = it_input st /\ apos st1 = apos st + len_utf8 c.
Proof.
  intros (p & Hp & HI) Hr H. pose proof HI as (_ & Hs & _).
  unfold bk_of in HI. rewrite Hr in HI. apply BkBkInv_consume1' in HI.
  cbn [bk_of bk_lines] in Hs. unfold record_line_offset in H. cbn [set_rest it_last_char it_lines] in H.
  replace (it_rel st + it_offset st) with (blen p) in H by (unfold apos in Hp; lia).
  assert (Hap : forall lns, apos (set_lines (set_rest st r (it_rel st + len_utf8 c)) c lns) = apos st + len_utf8 c).
  { intros lns. unfold apos. cbn. lia. }
  destruct (N.eqb (it_last_char st) NL).
  - rewrite (merge_sorted_eq _ _ Hs) in H. cbn [fold_left] in H. inversion H; subst st1. clear H.
    split; [|split; [reflexivity|apply Hap]].
    exists (p ++ [c]). rewrite Hap. split; [rewrite blen_app; cbn [blen]; lia|].
    rewrite <- Hp. exact HI.
  - inversion H; subst st1. clear H.
    split; [|split; [reflexivity|apply Hap]].
    exists (p ++ [c]). rewrite Hap. split; [rewrite blen_app; cbn [blen]; lia|].
    rewrite <- Hp. exact HI.
Qed.

(* the exhaustion branch of next = bk_exhaust *)
Lemma B_exhaust st F st1 : BInv st F -> it_rest st = [] ->
  record_line_offset st (blen (it_input st)) 0%N = Ok st1 ->
  BInv st1 F /\ it_input st1 = it_input st /\ apos st1 = apos st /\
  (is_start (it_input st) (apos st) -> In (apos st) (it_lines st1)).
Proof.
  intros (p & Hp & HI) Hr H. pose proof HI as (_ & Hs & _). cbn [bk_of bk_lines] in Hs.
  pose proof (BkInv_exhaust _ _ _ HI Hr) as HE. pose proof (exhaust_records_end _ _ _ HI Hr) as HR.
  unfold bk_exhaust, bk_cur in HE, HR. cbn [bk_of bk_pre bk_rest bk_lc bk_lines] in HE, HR.
  unfold record_line_offset in H.
  destruct (N.eqb (it_last_char st) NL).
  - rewrite (merge_sorted_eq _ _ Hs) in H. cbn [fold_left] in H. inversion H; subst st1. clear H.
    split; [exists p; split; [exact Hp|exact HE]|]. split; [reflexivity|]. split; [reflexivity|].
    rewrite <- Hp. exact HR.
  - inversion H; subst st1. clear H.
    split; [exists p; split; [exact Hp|exact HE]|]. split; [reflexivity|]. split; [reflexivity|].
    rewrite <- Hp. exact HR.
Qed.

(* advance_to = k times bk_consume1 *)
Lemma B_advance_to st pos st' r F : BInv st F -> advance_to st pos = Ok (st', r) ->
  BInv st' (Nat.max F (apos st')) /\ it_input st' = it_input st /\ apos st <= apos st'.
Proof.
  intros HB H. pose proof (BInv_cur_le _ _ HB) as Hle. destruct HB as (p & Hp & HI).
  unfold advance_to in H. destruct (pos <=? blen (it_input st) - blen (it_rest st)).
  - inversion H; subst st'. split; [|split; [reflexivity|lia]].
    replace (Nat.max F (apos st)) with F by lia. exists p. split; assumption.
  - destruct (advance_loop (it_offset st) (pos - it_offset st) (it_rest st) (it_rel st) (it_last_char st) 0 [])
      as [[[[r1 rel1] lc1] np1] sts1] eqn:EL.
    apply (advance_loop_inv (it_input st)) in EL as (more & Hs & Hrel & Hall). cbn [app] in Hs. subst sts1.
    destruct (Hall p (it_lines st) F) as (p' & Hp' & HI'); [unfold apos in Hp; lia|exact HI|].
    pose proof HI as (_ & Hsort & _). cbn [bk_of bk_lines] in Hsort.
    assert (EM : match more with [] => Ok (it_lines st) | _ => merge_line_offsets (it_lines st) more end
                 = Ok (fold_left (fun acc x => insert x acc) more (it_lines st))).
    { destruct more; [reflexivity|]. apply merge_sorted_eq, Hsort. }
    rewrite EM in H. inversion H; subst st' r. clear H.
    unfold BInv, bk_of, apos.
    cbn [it_mode it_input it_rest it_rel it_last_position it_last_char it_lines it_offset].
    split; [|split; [reflexivity|unfold apos; lia]].
    exists p'. split; [lia|]. replace (it_offset st + rel1) with (rel1 + it_offset st) by lia. exact HI'.
Qed.

(* set_offset to an already scanned boundary = bk_reset *)
Lemma B_set_offset st o st' F : BInv st F -> Nat.min o (blen (it_input st)) <= F ->
  set_offset st o = Ok st' ->
  BInv st' F /\ it_input st' = it_input st /\ apos st' = Nat.min o (blen (it_input st)).
Proof.
  intros (p & Hp & HI) Hle H. unfold set_offset in H.
  destruct (drop_bytes (Nat.min o (blen (it_input st))) (it_input st)) as [rst|] eqn:Ed; [|discriminate].
  inversion H; subst st'. clear H.
  apply drop_bytes_split in Ed as (p' & Es & Hb & Hcb).
  split; [|split; [reflexivity|unfold apos; cbn; lia]].
  exists p'. split; [unfold apos; cbn; lia|].
  unfold bk_of. cbn [it_mode it_input it_rest it_rel it_last_position it_last_char it_lines it_offset].
  rewrite Hcb. apply (BkInv_reset (it_input st) (bk_of st p) F p' rst HI); [symmetry; exact Es|lia].
Qed.

Section Ops.
Variable sc : scanner.

(* next: skipped characters are bk_consume1 steps, a token is an advance_to, the end is bk_exhaust *)
Lemma B_next_loop : forall fuel st st' tok F, BInv st F -> next_loop sc fuel st = Ok (st', tok) ->
  BInv st' (Nat.max F (apos st')) /\ it_input st' = it_input st /\ apos st <= apos st' /\
  (tok = None -> is_start (it_input st) (apos st') -> In (apos st') (it_lines st')).
Proof.
  induction fuel as [|f IH]; intros st st' tok F HB H; [discriminate|].
  cbn [next_loop] in H.
  destruct (peek_from sc (it_mode st) (it_rest st) (it_rel st)) as [[[[t s] e]|]|]; [| |discriminate].
  - destruct (mode_has_transition sc (it_mode st) t) as [sw|]; [|discriminate].
    set (st1 := match sw with Some m => set_mode st m | None => st end) in H.
    assert (H1 : BInv st1 F /\ it_input st1 = it_input st /\ apos st1 = apos st).
    { unfold st1. destruct sw; auto using BInv_set_mode. }
    destruct H1 as (HB1 & Hin1 & Hap1).
    destruct (advance_to st1 (e + it_offset st)) as [[st2 r2]|] eqn:Ea; [|discriminate].
    inversion H; subst st' tok. clear H.
    destruct (B_advance_to _ _ _ _ _ HB1 Ea) as (HB2 & Hin2 & Hap2).
    split; [exact HB2|]. split; [congruence|]. split; [lia|discriminate].
  - destruct (it_rest st) as [|c r] eqn:Er.
    + destruct (record_line_offset st (blen (it_input st)) 0%N) as [st1|] eqn:Erec; [|discriminate].
      inversion H; subst st' tok. clear H.
      destruct (B_exhaust _ _ _ HB Er Erec) as (HB1 & Hin1 & Hap1 & Hrec).
      pose proof (BInv_cur_le _ _ HB) as Hle.
      replace (Nat.max F (apos st1)) with F by lia.
      split; [exact HB1|]. split; [exact Hin1|]. split; [lia|]. intros _. rewrite Hap1. exact Hrec.
    + destruct (record_line_offset _ _ _) as [st1|] eqn:Erec in H; [|discriminate].
      destruct (B_record_skip _ _ _ _ _ HB Er Erec) as (HB1 & Hin1 & Hap1).
      destruct (IH _ _ _ _ HB1 H) as (HB' & Hin' & Hap' & Hrec').
      split; [|split; [congruence|split; [lia|rewrite <- Hin1; exact Hrec']]].
      replace (Nat.max F (apos st')) with (Nat.max (Nat.max F (apos st1)) (apos st')) by lia. exact HB'.
Qed.

(* every operation keeps the bookkeeping invariant and moves the frontier to the maximum of the
   old frontier and the new cursor; the only requirement is that a reset goes to an already
   scanned offset. No assumption on the scanner is needed for this. *)
Lemma B_step_op st o st' out F : BInv st F ->
  match o with OSetOffset off => Nat.min off (blen (it_input st)) <= F | _ => True end ->
  step_op sc st o = Some (st', out) ->
  BInv st' (Nat.max F (apos st')) /\ it_input st' = it_input st.
Proof.
  intros HB Hv H. pose proof (BInv_cur_le _ _ HB) as Hle.
  assert (Hsame : BInv st (Nat.max F (apos st))) by (replace (Nat.max F (apos st)) with F by lia; exact HB).
  destruct o; cbn [step_op] in H.
  - destruct (next_match sc st) as [[st1 tok]|] eqn:En; [|discriminate].
    destruct (B_next_loop _ _ _ _ _ HB En) as (HB1 & Hin1 & _).
    destruct tok; inversion H; subst; auto.
  - destruct (next_match sc st) as [[st1 tok]|] eqn:En; [|discriminate].
    destruct (B_next_loop _ _ _ _ _ HB En) as (HB1 & Hin1 & _).
    destruct tok as [[[t a] b]|]; [|inversion H; subst; auto].
    destruct (position st1 a) as [[l1 c1]|]; [|discriminate].
    destruct (position st1 b) as [[l2 c2]|]; [|discriminate]. inversion H; subst; auto.
  - destruct (peek_n sc st n) as [[ms|ms|ms m|]|]; inversion H; subst; auto.
  - destruct (set_offset st o) as [st1|] eqn:Es; [|discriminate]. inversion H; subst st1 out. clear H.
    destruct (B_set_offset _ _ _ _ HB Hv Es) as (HB1 & Hin1 & Hap1).
    replace (Nat.max F (apos st')) with F by lia. auto.
  - destruct (advance_to st p) as [[st1 r]|] eqn:Ea; [|discriminate]. inversion H; subst st1 out. clear H.
    destruct (B_advance_to _ _ _ _ _ HB Ea) as (HB1 & Hin1 & _). auto.
  - inversion H; subst. auto.
  - destruct (position st o) as [[l c]|]; [|discriminate]. inversion H; subst; auto.
  - inversion H; subst; auto.
  - inversion H; subst; auto.
Qed.
End Ops.

(* ================================================================================== *)
(* Part 3 — the invariant over histories and the position theorems                     *)
(* ================================================================================== *)

(* position = the abstract position function on the line vector *)
Lemma position_lpos st o : StronglySorted lt (it_lines st) -> In 0 (it_lines st) ->
  position st o = Ok (lpos (it_lines st) o).
Proof.
  intros Hs H0. unfold position, lpos. rewrite (count_le_cnt_le _ _ Hs).
  assert (Hk : 0 < cnt_le o (it_lines st)).
  { unfold cnt_le.
    assert (Hin : In 0 (filter (fun x => x <=? o) (it_lines st))) by (apply filter_In; split; [exact H0|reflexivity]).
    destruct (filter (fun x => x <=? o) (it_lines st)); [contradiction|cbn [length]; lia]. }
  destruct (cnt_le o (it_lines st)) as [|j]; [lia|]. replace (S j - 1) with j by lia. reflexivity.
Qed.

Section LI.
Variable sc : scanner.
Variable nmodes : nat.
Hypothesis Hsc : sc_ok sc nmodes.

(* the invariant: representation invariant of IterProofs + line bookkeeping with frontier F *)
Definition LInv (st:iter) (F:nat) : Prop := RInv nmodes st /\ BInv st F.

Lemma LInv_init sm input : 0 < nmodes -> LInv (find_iter sm input) 0.
Proof. intros H. split; [apply find_iter_RInv; exact H|apply BInv_init]. Qed.

(* valid operation whose reset (if it is one) goes to an already scanned offset *)
Definition op_valid_scanned (F:nat) (input:list N) (o:op) : Prop :=
  op_valid nmodes input o /\
  match o with OSetOffset off => Nat.min off (blen input) <= F | _ => True end.

Theorem LInv_step st F o st' out : LInv st F -> op_valid_scanned F (it_input st) o ->
  step_op sc st o = Some (st', out) ->
  LInv st' (Nat.max F (apos st')).
Proof.
  intros (HR & HB) (Hv & Hs) H. split.
  - destruct (step_op_total sc nmodes Hsc st o HR Hv) as (st2 & out2 & E & HR2 & _).
    rewrite H in E. inversion E; subst. exact HR2.
  - eapply B_step_op; eauto.
Qed.

Lemma LInv_step_input st F o st' out : LInv st F -> op_valid_scanned F (it_input st) o ->
  step_op sc st o = Some (st', out) -> it_input st' = it_input st.
Proof. intros (HR & HB) (Hv & Hs) H. eapply B_step_op; eauto. Qed.

(* ---------- histories ---------- *)
(* every operation of the history is valid for the frontier reached when it is executed *)
Fixpoint history_scanned (st:iter) (F:nat) (ops:list op) : Prop :=
  match ops with
  | [] => True
  | o :: ops' =>
      op_valid_scanned F (it_input st) o /\
      match step_op sc st o with
      | None => True
      | Some (st', _) => history_scanned st' (Nat.max F (apos st')) ops'
      end
  end.
(* the frontier after the history: the maximum of the cursor positions of all visited states *)
Fixpoint frontier_after (st:iter) (F:nat) (ops:list op) : nat :=
  match ops with
  | [] => F
  | o :: ops' =>
      match step_op sc st o with
      | None => F
      | Some (st', _) => frontier_after st' (Nat.max F (apos st')) ops'
      end
  end.

Theorem LInv_history : forall ops st F st' outs, LInv st F -> history_scanned st F ops ->
  run_history sc st ops = Some (st', outs) ->
  LInv st' (frontier_after st F ops) /\ it_input st' = it_input st.
Proof.
  induction ops as [|o ops IH]; intros st F st' outs HL Hh H; cbn [run_history history_scanned frontier_after] in *.
  - inversion H; subst. auto.
  - destruct Hh as (Hv & Hh). destruct (step_op sc st o) as [[st1 out1]|] eqn:Es; [|discriminate].
    destruct (run_history sc st1 ops) as [[st2 outs2]|] eqn:Er; [|discriminate]. inversion H; subst st2 outs. clear H.
    pose proof (LInv_step _ _ _ _ _ HL Hv Es) as HL1. pose proof (LInv_step_input _ _ _ _ _ HL Hv Es) as Hin1.
    destruct (IH _ _ _ _ HL1 Hh Er) as (HL2 & Hin2). split; [exact HL2|congruence].
Qed.

(* such a history never panics *)
Theorem history_scanned_total : forall ops st F, LInv st F -> history_scanned st F ops ->
  exists st' outs, run_history sc st ops = Some (st', outs).
Proof.
  induction ops as [|o ops IH]; intros st F HL Hh; cbn [run_history history_scanned] in *; [eauto|].
  destruct Hh as (Hv & Hh). pose proof HL as (HR & _). pose proof Hv as (Hv1 & _).
  destruct (step_op_total sc nmodes Hsc st o HR Hv1) as (st1 & out1 & Es & _). rewrite Es in *.
  pose proof (LInv_step _ _ _ _ _ HL Hv Es) as HL1.
  destruct (IH _ _ HL1 Hh) as (st2 & outs2 & Er). rewrite Er. eauto.
Qed.

(* the frontier never exceeds the input and is never behind the cursor *)
Lemma LInv_bounds st F : LInv st F -> apos st <= F <= blen (it_input st).
Proof. intros (_ & HB). split; [apply BInv_cur_le, HB|apply BInv_frontier_le, HB]. Qed.

(* ---------- positions ---------- *)
(* exact for every offset up to the frontier, provided that, if it is a line start, it is recorded *)
Theorem LInv_position_gen st F o : LInv st F -> o <= F ->
  (is_start (it_input st) o -> In o (it_lines st)) ->
  position st o = Ok (pos_spec (it_input st) o).
Proof.
  intros (_ & HB) Ho Hrec. destruct (BInv_lines _ _ HB) as (Hs & H0). rewrite (position_lpos _ _ Hs H0).
  destruct HB as (p & _ & HI). f_equal. exact (lpos_correct_gen _ _ _ _ HI Ho Hrec).
Qed.

Theorem LInv_position st F o : LInv st F ->
  o < F \/ (o <= F /\ ~ is_start (it_input st) o) ->
  position st o = Ok (pos_spec (it_input st) o).
Proof.
  intros (_ & HB) Ho. destruct (BInv_lines _ _ HB) as (Hs & H0). rewrite (position_lpos _ _ Hs H0).
  destruct HB as (p & _ & HI). f_equal. exact (lpos_correct _ _ _ _ HI Ho).
Qed.

(* the frontier itself, when it is not recorded (it is then a line start whose first character
   has not been consumed, or not a line start at all, in which case both answers coincide) *)
Theorem LInv_position_frontier st F : LInv st F -> ~ In F (it_lines st) ->
  position st F = Ok (pos_after_break (it_input st) F).
Proof.
  intros (_ & HB) Hn. destruct (BInv_lines _ _ HB) as (Hs & H0). rewrite (position_lpos _ _ Hs H0).
  assert (HF : 0 < F). { destruct F; [contradiction|lia]. }
  destruct HB as (p & _ & HI). f_equal. exact (lpos_unrecorded_frontier _ _ _ HI Hn HF).
Qed.

(* one of the two answers at every scanned offset *)
Corollary LInv_position_cases st F o : LInv st F -> o <= F ->
  position st o = Ok (pos_spec (it_input st) o) \/
  (o = F /\ is_start (it_input st) o /\ ~ In o (it_lines st) /\
   position st o = Ok (pos_after_break (it_input st) o)).
Proof.
  intros HL Ho. destruct (is_start_dec (it_input st) o) as [Hst|Hst].
  - destruct (in_dec Nat.eq_dec o (it_lines st)) as [Hin|Hin].
    + left. apply (LInv_position_gen st F o HL Ho). intros _. exact Hin.
    + destruct (Nat.eq_dec o F) as [->|Hne].
      * right. split; [reflexivity|]. split; [exact Hst|]. split; [exact Hin|]. apply LInv_position_frontier; assumption.
      * left. apply (LInv_position st F o HL). left. lia.
  - left. apply (LInv_position st F o HL). right. auto.
Qed.

(* ---------- tokens ---------- *)
Lemma next_match_LInv st F st' tok : LInv st F -> next_match sc st = Ok (st', tok) ->
  LInv st' (Nat.max F (apos st')) /\ it_input st' = it_input st /\
  match tok with
  | Some (t, a, b) => apos st <= a /\ a < b /\ b = apos st'
  | None => apos st' = blen (it_input st) /\
            (is_start (it_input st) (apos st') -> In (apos st') (it_lines st'))
  end.
Proof.
  intros (HR & HB) H. pose proof (next_match_spec sc nmodes Hsc st HR) as Hn.
  destruct (anext sc _ _ _ _) as [[[[m' p'] s'] tok']|] eqn:Ea; [|destruct Hn].
  destruct Hn as (st2 & En & HR2 & Hm2 & Hp2 & Hr2 & Hin2). rewrite H in En. inversion En; subst st2 tok'. clear En.
  destruct (B_next_loop sc _ _ _ _ _ HB H) as (HB' & Hin' & Hap' & Hrec').
  split; [split; assumption|]. split; [exact Hin'|].
  pose proof HR as (Hd & _).
  destruct tok as [[[t a] b]|].
  - destruct (anext_token sc nmodes Hsc _ _ _ _ _ _ _ _ _ _ _ Hd Ea) as (A1 & A2 & A3 & _). subst p'. lia.
  - destruct (anext_none sc _ _ _ _ _ _ _ _ Hd Ea) as (_ & _ & A3). split; [congruence|]. apply Hrec'. reflexivity.
Qed.

(* the positions WithPositions::next attaches to a token: computed on the state after next *)
Theorem LInv_match_positions st F st' t a b : LInv st F ->
  next_match sc st = Ok (st', Some (t, a, b)) ->
  position st' a = Ok (pos_spec (it_input st) a) /\
  (position st' b = Ok (pos_spec (it_input st) b) \/
   (is_start (it_input st) b /\ position st' b = Ok (pos_after_break (it_input st) b))).
Proof.
  intros HL H. destruct (next_match_LInv _ _ _ _ HL H) as (HL' & Hin' & Ha & Hab & Hb).
  rewrite <- Hin'. split.
  - apply (LInv_position _ _ _ HL'). left. lia.
  - destruct (LInv_position_cases st' _ b HL') as [Hc|(_ & Hst & _ & Hc)]; [lia|left; exact Hc|right; auto].
Qed.

(* after next returned None (exhaustion) every offset of the input has its exact position; in
   particular the line start behind a trailing '\n' is recorded *)
Theorem LInv_exhausted_positions st F st' o : LInv st F ->
  next_match sc st = Ok (st', None) -> o <= blen (it_input st) ->
  position st' o = Ok (pos_spec (it_input st) o).
Proof.
  intros HL H Ho. destruct (next_match_LInv _ _ _ _ HL H) as (HL' & Hin' & Hend & Hrec).
  pose proof (LInv_bounds _ _ HL') as (_ & Hb). rewrite Hin' in Hb.
  rewrite <- Hin'. apply (LInv_position_gen _ _ _ HL'); [lia|].
  intros Hst. rewrite Hin' in Hst.
  destruct (Nat.eq_dec o (apos st')) as [->|Hne]; [apply Hrec; exact Hst|].
  destruct HL' as (_ & (p & _ & (_ & _ & _ & _ & Hcompl & _))). cbn [bk_of bk_lines] in Hcompl.
  apply Hcompl; [rewrite Hin'; exact Hst|lia].
Qed.

(* ---------- the same statements for reachable states ---------- *)
Section Reach.
Variable sm : nat.
Variable input : list N.
Hypothesis Hnm : 0 < nmodes.
Variable ops : list op.
Variable st : iter.
Variable outs : list (list N).
Hypothesis Hh : history_scanned (find_iter sm input) 0 ops.
Hypothesis Hrun : run_history sc (find_iter sm input) ops = Some (st, outs).

Let F := frontier_after (find_iter sm input) 0 ops.

Lemma reach_LInv : LInv st F /\ it_input st = input.
Proof. exact (LInv_history ops _ 0 st outs (LInv_init sm input Hnm) Hh Hrun). Qed.

Theorem reach_position_of_scanned_offset o :
  o < F \/ (o <= F /\ ~ is_start input o) -> position st o = Ok (pos_spec input o).
Proof. destruct reach_LInv as (HL & <-). apply LInv_position. exact HL. Qed.

Theorem reach_position_recorded o :
  o <= F -> (is_start input o -> In o (it_lines st)) -> position st o = Ok (pos_spec input o).
Proof. destruct reach_LInv as (HL & <-). apply LInv_position_gen. exact HL. Qed.

Theorem reach_position_at_unrecorded_frontier :
  is_start input F -> ~ In F (it_lines st) -> position st F = Ok (pos_after_break input F).
Proof. destruct reach_LInv as (HL & <-). intros _. apply LInv_position_frontier. exact HL. Qed.

Theorem reach_match_positions st' t a b :
  next_match sc st = Ok (st', Some (t, a, b)) ->
  position st' a = Ok (pos_spec input a) /\
  (position st' b = Ok (pos_spec input b) \/
   (is_start input b /\ position st' b = Ok (pos_after_break input b))).
Proof. destruct reach_LInv as (HL & <-). apply LInv_match_positions with (F := F). exact HL. Qed.

Theorem reach_exhausted_positions st' o :
  next_match sc st = Ok (st', None) -> o <= blen input -> position st' o = Ok (pos_spec input o).
Proof. destruct reach_LInv as (HL & <-). apply LInv_exhausted_positions with (F := F). exact HL. Qed.

(* the encoded output of WithPositions::next in a reachable state *)
Theorem reach_next_pos_output st' t s e l1 c1 l2 c2 :
  step_op sc st ONextPos =
    Some (st', 1%N :: enc_tok (t, s, e) ++ [N.of_nat l1; N.of_nat c1; N.of_nat l2; N.of_nat c2]) ->
  (l1, c1) = pos_spec input s /\
  ((l2, c2) = pos_spec input e \/ (is_start input e /\ (l2, c2) = pos_after_break input e)).
Proof.
  intros H. cbn [step_op] in H.
  destruct (next_match sc st) as [[st1 [[[t0 a] b]|]]|] eqn:En; [| |discriminate].
  - pose proof (reach_match_positions _ _ _ _ En) as (Pa & Pb).
    destruct (position st1 a) as [[l1' c1']|] eqn:E1; [|discriminate].
    destruct (position st1 b) as [[l2' c2']|] eqn:E2; [|discriminate].
    inversion H as [[Hst Ht Hs He Hl1 Hc1 Hl2 Hc2]].
    apply Nat2N.inj in Hs, He, Hl1, Hc1, Hl2, Hc2. subst.
    split; [congruence|]. destruct Pb as [Pb|[Pst Pb]]; [left; congruence|right; split; [exact Pst|congruence]].
  - inversion H.
Qed.
End Reach.
End LI.
