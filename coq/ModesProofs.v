(* ModesProofs.v — CompiledScannerMode::has_transition (linear search with early exit) is the
   association lookup when the transitions are strictly sorted by token type. *)
From Scnr Require Import Base Automaton FindFrom Iter.

Fixpoint nsorted (l:list N) : bool :=
  match l with
  | x :: ((y :: _) as l') => N.ltb x y && nsorted l'
  | _ => true
  end.

Lemma nsorted_all_gt x l : nsorted (x :: l) = true -> forall y, In y l -> (x < y)%N.
Proof.
  revert x. induction l as [|z l IH]; intros x H y Hy; [destruct Hy|].
  cbn [nsorted] in H. apply andb_true_iff in H as [H1 H2]. apply N.ltb_lt in H1.
  destruct Hy as [<-|Hy]; [exact H1|]. specialize (IH z H2 y Hy). eapply N.lt_trans; eauto.
Qed.

Theorem has_transition_is_lookup tr t : nsorted (map fst tr) = true -> has_transition tr t = nassoc t tr.
Proof.
  induction tr as [|[t' m] tr IH]; intros Hs; [reflexivity|].
  cbn [has_transition nassoc]. destruct (N.compare_spec t t') as [E|E|E].
  - subst. rewrite N.eqb_refl. reflexivity.
  - (* smaller than the entry: early exit; not in the rest either *)
    assert (En : N.eqb t t' = false) by (apply N.eqb_neq; lia). rewrite En.
    cbn [map fst] in Hs. pose proof (nsorted_all_gt _ _ Hs) as Hgt.
    clear IH. induction tr as [|[t2 m2] tr IH2]; [reflexivity|]. cbn [nassoc].
    assert (t' < t2)%N by (apply Hgt; left; reflexivity).
    assert (E2 : N.eqb t t2 = false) by (apply N.eqb_neq; lia). rewrite E2. apply IH2.
    + cbn [map fst nsorted] in *. apply andb_true_iff in Hs as [H1 H2].
      destruct tr as [|[t3 m3] tr]; [reflexivity|]. cbn [map fst nsorted] in *.
      apply andb_true_iff in H2 as [H3 H4]. apply N.ltb_lt in H1, H3.
      apply andb_true_iff. split; [apply N.ltb_lt; lia|exact H4].
    + intros y Hy. apply Hgt. right. exact Hy.
  - assert (En : N.eqb t t' = false) by (apply N.eqb_neq; lia). rewrite En.
    apply IH. cbn [map fst] in Hs. destruct (map fst tr) eqn:Em; [reflexivity|].
    cbn [nsorted] in Hs. apply andb_true_iff in Hs as [_ Hs]. exact Hs.
Qed.

(* the search differs from the lookup on an unsorted list: sortedness is needed *)
Example has_transition_unsorted_differs :
  has_transition [(5%N, 1); (3%N, 2)] 3%N = None /\ nassoc 3%N [(5%N, 1); (3%N, 2)] = Some 2.
Proof. split; reflexivity. Qed.
