(* SpecRun.v — evaluation entry points of the declarative specification for generated cases. *)
From Scnr Require Import Base Regex Automaton FindFrom Iter IterRun Spec.

Definition tok_of_N (t:N * N * N) : N * nat * nat :=
  let '(ty, s, e) := t in (ty, N.to_nat s, N.to_nat e).

(* [[verdict]; expected tokens (deterministic choice), flattened]
   verdict: 1 = the reported stream is one the rule allows, 0 = it is not, 2 = the
   configuration has an unsupported pattern, 3 = the start offset is not a character boundary *)
Definition spec_case (leaf:list (N * list N)) (modes:list (option smode)) (mode0:N) (input:list N)
           (off:N) (toks:list (N * N * N)) : list (list N) :=
  match all_some modes with
  | None => [[2%N]]
  | Some ms =>
      let o := Nat.min (N.to_nat off) (blen input) in
      match drop_bytes o input with
      | None => [[3%N]]
      | Some rest =>
          let fuel := S (length rest) in
          let ok := check_stream (tbl_of leaf) fuel ms (N.to_nat mode0) rest o (map tok_of_N toks) in
          [[if ok then 1%N else 0%N];
           flat_map enc_tok (spec_tokens (tbl_of leaf) fuel ms (N.to_nat mode0) rest o)]
      end
  end.

(* the specification as a scanner: the deterministic maximal candidate of the pattern ASTs *)
Definition spec_scanner (leaf:N -> N -> bool) (ms:list smode) : scanner :=
  {| sc_find := fun m s => match nth_error ms m with
                           | None => Panic
                           | Some sm => Ok (best_cand leaf (sm_pats sm) s)
                           end;
     sc_trans := fun m => match nth_error ms m with None => Panic | Some sm => Ok (sm_trans sm) end |}.

(* a history on the iterator driven by the specification instead of the compiled automata *)
Definition spec_history (leaf:list (N * list N)) (modes:list (option smode)) (scanner_mode:N)
           (input:list N) (ops:list nop) : list (list N) :=
  match all_some modes with
  | None => [[2%N]]
  | Some ms => run_ops (spec_scanner (tbl_of leaf) ms) (find_iter (N.to_nat scanner_mode) input) (map op_of ops)
  end.
