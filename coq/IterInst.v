(* IterInst.v — the scanner built from compiled modes satisfies what the iterator proofs need. *)
From Scnr Require Import Base Automaton FindFrom FindFromProofs ModeProofs Iter IterProofs.

Lemma drop_bytes_firstn k : forall s, k <= length s -> drop_bytes (blen (firstn k s)) s = Some (skipn k s).
Proof.
  induction k as [|k IH]; intros s Hk.
  - cbn. apply drop_bytes_0.
  - destruct s as [|c s]; [cbn in Hk; lia|]. cbn [firstn skipn blen].
    eapply drop_bytes_add; [apply drop_bytes_cons|]. apply IH. cbn in Hk. lia.
Qed.

(* a configuration of compiled modes is valid: automata well-formed in the sense of mode_ok,
   transitions lead to existing modes *)
Definition modes_ok (modes:list cmode) : Prop :=
  forall cm, In cm modes -> mode_ok (aut cm) /\
    forall t m', has_transition (mtrans cm) t = Some m' -> m' < length modes.

Definition trans_okb (n:nat) (tr:list (N * nat)) : bool := forallb (fun e => snd e <? n) tr.
Definition modes_okb (modes:list cmode) : bool :=
  forallb (fun cm => mode_okb (aut cm) && trans_okb (length modes) (mtrans cm)) modes.

Lemma has_transition_in tr t m : has_transition tr t = Some m -> In (t, m) tr.
Proof.
  induction tr as [|[t' m'] tr IH]; cbn; [discriminate|].
  destruct (N.compare t t') eqn:E; [|discriminate|].
  - apply N.compare_eq in E. subst. intros H; inversion H; auto.
  - intros H. right. apply IH, H.
Qed.

Lemma modes_okb_ok modes : modes_okb modes = true -> modes_ok modes.
Proof.
  unfold modes_okb, modes_ok. rewrite forallb_forall. intros H cm Hin.
  specialize (H cm Hin). apply andb_true_iff in H as [H1 H2]. split; [apply mode_okb_ok; exact H1|].
  intros t m' Hh. apply has_transition_in in Hh. unfold trans_okb in H2. rewrite forallb_forall in H2.
  specialize (H2 _ Hh). cbn in H2. apply Nat.ltb_lt in H2. exact H2.
Qed.

Theorem impl_scanner_ok tbl modes : modes_ok modes -> sc_ok (impl_scanner tbl modes) (length modes).
Proof.
  intros Hok. unfold sc_ok, impl_scanner. cbn. split; [|split].
  - intros m s Hm. destruct (nth_error modes m) as [cm|] eqn:E; [|apply nth_error_None in E; lia].
    destruct (Hok cm (nth_error_In _ _ E)) as (Hmo & _).
    pose proof (find_mode_spec tbl (aut cm) Hmo s) as H. destruct (find_mode tbl (aut cm) s); [discriminate|destruct H].
  - intros m s t e H. destruct (nth_error modes m) as [cm|] eqn:E; [|discriminate].
    destruct (Hok cm (nth_error_In _ _ E)) as (Hmo & _).
    pose proof (find_mode_spec tbl (aut cm) Hmo s) as Hs. rewrite H in Hs.
    destruct Hs as (k & l & He & ((Hk1 & Hk2) & _) & _). split.
    + eapply find_mode_nonempty; eauto.
    + exists (skipn k s). rewrite He. unfold bpos. apply drop_bytes_firstn. exact Hk2.
  - intros m Hm. destruct (nth_error modes m) as [cm|] eqn:E; [|apply nth_error_None in E; lia].
    exists (mtrans cm). split; [reflexivity|]. apply (Hok cm (nth_error_In _ _ E)).
Qed.
