//! C16 — serialization round trips (see lib/prop_c16.py). Returns None for kinds it does not know.
//!
//! json_roundtrip: configuration in job format -> `serde_json::to_string`, `from_str` of that text,
//!                 `==`, and dumps / token streams of the scanners built before and after.
//! json_cache_seq: configuration, filler configurations, inputs -> build() of the configuration, of the fillers, and
//!                 of the configuration read back from its JSON text, compared with build_uncached of the original.
//! json_parse:     a JSON text -> does `from_str::<Vec<ScannerMode>>` accept it, and which value.
//! json_values:    Span / Position / Match / MatchExt from numbers -> texts and round trips;
//!                 texts -> accepted or not, and which value.
use std::panic::{catch_unwind, AssertUnwindSafe};

use scnr::{Match, MatchExt, MatchExtIterator, Position, ScannerMode, Span};
use serde_json::{json, Map, Value};

/// The configuration in the harness' job format, read off the `Serialize` output of the modes.
/// (ScannerMode has no public accessors for its patterns and transitions.)
fn reemit(modes: &[ScannerMode]) -> Result<Value, String> {
    let v = serde_json::to_value(modes).map_err(|e| format!("to_value: {}", e))?;
    let arr = v.as_array().ok_or("configuration is not an array")?;
    let mut out = Vec::new();
    for (m, orig) in arr.iter().zip(modes) {
        let name = m.get("name").and_then(|n| n.as_str()).ok_or("mode without name")?;
        if name != orig.name() {
            return Err(format!("name() = {:?} but serialized name = {:?}", orig.name(), name));
        }
        let mut pats = Vec::new();
        for p in m.get("patterns").and_then(|p| p.as_array()).ok_or("mode without patterns")? {
            let mut q = Map::new();
            q.insert("p".into(), json!(p.get("pattern").and_then(|s| s.as_str()).ok_or("pattern without pattern")?));
            q.insert("t".into(), json!(p.get("token_type").and_then(|t| t.as_u64()).ok_or("pattern without token_type")?));
            match p.get("lookahead") {
                None | Some(Value::Null) => {}
                Some(la) => {
                    q.insert(
                        "la".into(),
                        json!({
                            "pos": la.get("is_positive").and_then(|b| b.as_bool()).ok_or("lookahead without is_positive")?,
                            "p": la.get("pattern").and_then(|s| s.as_str()).ok_or("lookahead without pattern")?,
                        }),
                    );
                }
            }
            pats.push(Value::Object(q));
        }
        let mut trans = Vec::new();
        for t in m.get("transitions").and_then(|t| t.as_array()).ok_or("mode without transitions")? {
            let a = t.as_array().filter(|a| a.len() == 2).ok_or("transition is not a pair")?;
            trans.push(json!([a[0].as_u64().ok_or("transition token")?, a[1].as_u64().ok_or("transition mode")?]));
        }
        out.push(json!({"name": name, "patterns": pats, "transitions": trans}));
    }
    Ok(Value::Array(out))
}

fn streams(scanner: &scnr::Scanner, inputs: &[Value]) -> Vec<Vec<Vec<u64>>> {
    inputs
        .iter()
        .map(|inp| {
            let inp = inp.as_str().unwrap_or("");
            let n = inp.chars().count() + 2;
            let ops: Vec<Value> = (0..n).map(|_| json!(["next"])).collect();
            crate::run_ops(scanner, inp, &ops, false)
        })
        .collect()
}

fn job_roundtrip(job: &Value) -> Value {
    let mut res = Map::new();
    let modes = match catch_unwind(|| crate::modes_from_json(&job["modes"])) {
        Ok(m) => m,
        Err(p) => {
            res.insert("construct".into(), json!(format!("panic: {}", crate::panic_message(p))));
            return Value::Object(res);
        }
    };
    res.insert("construct".into(), json!("ok"));
    let text = match catch_unwind(AssertUnwindSafe(|| serde_json::to_string(&modes))) {
        Ok(Ok(t)) => t,
        Ok(Err(e)) => {
            res.insert("to_string".into(), json!(format!("error: {}", e)));
            return Value::Object(res);
        }
        Err(p) => {
            res.insert("to_string".into(), json!(format!("panic: {}", crate::panic_message(p))));
            return Value::Object(res);
        }
    };
    res.insert("to_string".into(), json!("ok"));
    res.insert("text".into(), json!(text));
    if job.get("pretty").and_then(|b| b.as_bool()).unwrap_or(false) {
        if let Ok(p) = serde_json::to_string_pretty(&modes) {
            let back = serde_json::from_str::<Vec<ScannerMode>>(&p);
            res.insert("pretty_equal".into(), json!(matches!(&back, Ok(b) if *b == modes)));
            res.insert("pretty".into(), json!(p));
        }
    }
    let reread = match catch_unwind(AssertUnwindSafe(|| serde_json::from_str::<Vec<ScannerMode>>(&text))) {
        Ok(Ok(m)) => m,
        Ok(Err(e)) => {
            res.insert("from_str".into(), json!(format!("error: {}", e)));
            return Value::Object(res);
        }
        Err(p) => {
            res.insert("from_str".into(), json!(format!("panic: {}", crate::panic_message(p))));
            return Value::Object(res);
        }
    };
    res.insert("from_str".into(), json!("ok"));
    res.insert("equal".into(), json!(reread == modes && modes == reread));
    // a second trip must reproduce the text
    res.insert(
        "text_stable".into(),
        json!(matches!(serde_json::to_string(&reread), Ok(t2) if t2 == text)),
    );
    // the value-level reader (`from_value`) agrees with the text-level one
    res.insert(
        "via_value_equal".into(),
        json!(serde_json::to_value(&modes)
            .ok()
            .and_then(|v| serde_json::from_value::<Vec<ScannerMode>>(v).ok())
            .map(|m| m == modes)
            .unwrap_or(false)),
    );
    match reemit(&reread) {
        Ok(v) => {
            res.insert("reread_modes".into(), v);
        }
        Err(e) => {
            res.insert("reemit_error".into(), json!(e));
        }
    }
    // behaviour of the scanners built from the original and from the re-read configuration
    let (s1, c1, e1) = crate::build(&modes, false);
    let (s2, c2, e2) = crate::build(&reread, false);
    res.insert("build".into(), json!(c1));
    res.insert("build2".into(), json!(c2));
    if c1 != c2 || e1 != e2 {
        res.insert("error".into(), json!(e1));
        res.insert("error2".into(), json!(e2));
        res.insert("build_equal".into(), json!(false));
        return Value::Object(res);
    }
    res.insert("build_equal".into(), json!(true));
    if let (Some(s1), Some(s2)) = (s1, s2) {
        let d1 = crate::dump_to_json(&scnr::verif::dump(&s1));
        let d2 = crate::dump_to_json(&scnr::verif::dump(&s2));
        let mut dump_equal = d1 == d2;
        if !dump_equal {
            // control: is the compilation of one and the same configuration reproducible at all?
            let (s3, _, _) = crate::build(&modes, false);
            let reproducible = s3.map(|s3| crate::dump_to_json(&scnr::verif::dump(&s3)) == d1).unwrap_or(false);
            res.insert("dump_reproducible".into(), json!(reproducible));
            if !reproducible {
                dump_equal = true;
            } else {
                res.insert("dump1".into(), d1.clone());
                res.insert("dump2".into(), d2);
            }
        }
        res.insert("dump_equal".into(), json!(dump_equal));
        // "builds a scanner with identical behaviour" whichever way it is built: through the cache (build()) and by
        // the owned conversion (Scanner::try_from), the re-read configuration compiles to the same automata
        let (s2c, _, _) = crate::build(&reread, true);
        let owned = catch_unwind(AssertUnwindSafe(|| scnr::Scanner::try_from(reread.clone()).ok())).ok().flatten();
        let same = |s: &Option<scnr::Scanner>| s.as_ref().map(|s| crate::dump_to_json(&scnr::verif::dump(s)) == d1).unwrap_or(false);
        let reproducible = res.get("dump_reproducible").and_then(|b| b.as_bool()).unwrap_or(true);
        res.insert("other_build_paths_equal".into(), json!(!reproducible || (same(&s2c) && same(&owned))));
        res.insert(
            "dump_states".into(),
            json!(d1["modes"].as_array().map(|a| a.iter().map(|m| m["dfa"]["states"].as_array().map(|s| s.len()).unwrap_or(0)).sum::<usize>()).unwrap_or(0)),
        );
        let empty = Vec::new();
        let inputs = job.get("inputs").and_then(|i| i.as_array()).unwrap_or(&empty);
        let st1 = streams(&s1, inputs);
        let st2 = streams(&s2, inputs);
        res.insert("streams_equal".into(), json!(st1 == st2));
        if st1 != st2 {
            res.insert("streams2".into(), json!(st2));
        }
        res.insert("streams".into(), json!(st1));
    }
    Value::Object(res)
}

fn job_parse(job: &Value) -> Value {
    let text = job["text"].as_str().unwrap_or("");
    let mut res = Map::new();
    match catch_unwind(|| serde_json::from_str::<Vec<ScannerMode>>(text)) {
        Ok(Ok(modes)) => {
            res.insert("accept".into(), json!(true));
            match reemit(&modes) {
                Ok(v) => {
                    res.insert("modes".into(), v);
                }
                Err(e) => {
                    res.insert("reemit_error".into(), json!(e));
                }
            }
            if let Ok(t) = serde_json::to_string(&modes) {
                res.insert("reser".into(), json!(t));
            }
            // independent of Serialize: `==` with the value constructed through the public API
            if let Some(exp) = job.get("expect").filter(|e| e.is_array()) {
                if let Ok(e) = catch_unwind(|| crate::modes_from_json(exp)) {
                    res.insert("eq_expected".into(), json!(e == modes));
                }
            }
        }
        Ok(Err(e)) => {
            res.insert("accept".into(), json!(false));
            res.insert("error".into(), json!(e.to_string()));
        }
        Err(p) => {
            res.insert("accept".into(), json!(false));
            res.insert("panic".into(), json!(crate::panic_message(p)));
        }
    }
    Value::Object(res)
}

fn u(v: &Value, k: &str) -> usize {
    v[k].as_u64().unwrap_or(0) as usize
}

fn position(l: usize, c: usize) -> Position {
    if l > 0 && c > 0 {
        Position::new(l, c)
    } else {
        // Position::new asserts 1-based numbers in debug builds; the fields are public
        Position { line: l, column: c }
    }
}

fn value_numbers(v: &Value) -> Value {
    // flattens the numbers of a serialized Span / Position / Match / MatchExt in a fixed key order
    let mut out: Vec<u64> = Vec::new();
    let mut ok = true;
    let mut num = |x: Option<&Value>| match x.and_then(|n| n.as_u64()) {
        Some(n) => out.push(n),
        None => ok = false,
    };
    if v.get("token_type").is_some() {
        num(v.get("token_type"));
        num(v.get("span").and_then(|s| s.get("start")));
        num(v.get("span").and_then(|s| s.get("end")));
        if v.get("start_position").is_some() {
            num(v.get("start_position").and_then(|s| s.get("line")));
            num(v.get("start_position").and_then(|s| s.get("column")));
            num(v.get("end_position").and_then(|s| s.get("line")));
            num(v.get("end_position").and_then(|s| s.get("column")));
        }
    } else if v.get("start").is_some() {
        num(v.get("start"));
        num(v.get("end"));
    } else {
        num(v.get("line"));
        num(v.get("column"));
    }
    if ok {
        json!(out)
    } else {
        Value::Null
    }
}

fn job_values(job: &Value) -> Value {
    let mut outs = Vec::new();
    let empty = Vec::new();
    for v in job.get("values").and_then(|v| v.as_array()).unwrap_or(&empty) {
        let r = catch_unwind(|| {
            let span = Span::new(u(v, "a"), u(v, "b"));
            let p1 = position(u(v, "l1"), u(v, "c1"));
            let p2 = position(u(v, "l2"), u(v, "c2"));
            let m = Match::new(u(v, "t"), span);
            // MatchExt::new is crate-private: outside the crate a MatchExt comes from a scanner run
            // (see "scan" below) or from deserialization of the documented layout.
            let me = match serde_json::from_str::<MatchExt>(v["me_text"].as_str().unwrap_or("")) {
                Ok(me) => me,
                Err(e) => return json!({"match_ext_error": e.to_string()}),
            };
            let built = me.token_type() == u(v, "t")
                && me.span() == span
                && me.start_position() == p1
                && me.end_position() == p2;
            let ts = serde_json::to_string(&span).unwrap();
            let tp1 = serde_json::to_string(&p1).unwrap();
            let tp2 = serde_json::to_string(&p2).unwrap();
            let tm = serde_json::to_string(&m).unwrap();
            let tme = serde_json::to_string(&me).unwrap();
            let rt = matches!(serde_json::from_str::<Span>(&ts), Ok(x) if x == span)
                && matches!(serde_json::from_str::<Position>(&tp1), Ok(x) if x == p1)
                && matches!(serde_json::from_str::<Position>(&tp2), Ok(x) if x == p2)
                && matches!(serde_json::from_str::<Match>(&tm), Ok(x) if x == m)
                && matches!(serde_json::from_str::<MatchExt>(&tme), Ok(x) if x == me);
            // the re-read values report the same numbers through the public accessors
            let acc = match serde_json::from_str::<MatchExt>(&tme) {
                Ok(x) => {
                    x.token_type() == u(v, "t")
                        && x.start() == u(v, "a")
                        && x.end() == u(v, "b")
                        && x.start_position().line == u(v, "l1")
                        && x.start_position().column == u(v, "c1")
                        && x.end_position().line == u(v, "l2")
                        && x.end_position().column == u(v, "c2")
                }
                Err(_) => false,
            } && match serde_json::from_str::<Match>(&tm) {
                Ok(x) => x.token_type() == u(v, "t") && x.start() == u(v, "a") && x.end() == u(v, "b"),
                Err(_) => false,
            };
            json!({"span": ts, "start_position": tp1, "end_position": tp2, "match": tm, "match_ext": tme,
                   "roundtrip": rt, "accessors": acc && built})
        });
        outs.push(match r {
            Ok(v) => v,
            Err(p) => json!({"panic": crate::panic_message(p)}),
        });
    }
    let mut parsed = Vec::new();
    for p in job.get("parse").and_then(|v| v.as_array()).unwrap_or(&empty) {
        let text = p["text"].as_str().unwrap_or("");
        let ty = p["ty"].as_str().unwrap_or("");
        let r: Result<Value, String> = match ty {
            "span" => serde_json::from_str::<Span>(text)
                .map_err(|e| e.to_string())
                .map(|x| json!([x.start, x.end])),
            "position" => serde_json::from_str::<Position>(text)
                .map_err(|e| e.to_string())
                .map(|x| json!([x.line, x.column])),
            "match" => serde_json::from_str::<Match>(text)
                .map_err(|e| e.to_string())
                .map(|x| json!([x.token_type(), x.start(), x.end()])),
            "match_ext" => serde_json::from_str::<MatchExt>(text).map_err(|e| e.to_string()).map(|x| {
                json!([x.token_type(), x.start(), x.end(), x.start_position().line, x.start_position().column,
                       x.end_position().line, x.end_position().column])
            }),
            other => Err(format!("harness: unknown value type {}", other)),
        };
        parsed.push(match r {
            Ok(nums) => {
                // the same numbers as the Serialize output of the parsed value shows
                let again = match ty {
                    "span" => serde_json::from_str::<Span>(text).ok().and_then(|x| serde_json::to_value(x).ok()),
                    "position" => serde_json::from_str::<Position>(text).ok().and_then(|x| serde_json::to_value(x).ok()),
                    "match" => serde_json::from_str::<Match>(text).ok().and_then(|x| serde_json::to_value(x).ok()),
                    _ => serde_json::from_str::<MatchExt>(text).ok().and_then(|x| serde_json::to_value(x).ok()),
                };
                json!({"accept": true, "value": nums, "reser_value": again.map(|v| value_numbers(&v))})
            }
            Err(e) => json!({"accept": false, "error": e}),
        });
    }
    // MatchExt / Match values as a scanner produces them
    let mut scanned = Vec::new();
    if let Some(sc) = job.get("scan") {
        let r = catch_unwind(|| {
            let modes = crate::modes_from_json(&sc["modes"]);
            let (s, _, _) = crate::build(&modes, false);
            let mut v = Vec::new();
            if let Some(s) = s {
                let input = sc["input"].as_str().unwrap_or("");
                for me in s.find_iter(input).with_positions() {
                    let t = serde_json::to_string(&me).unwrap_or_default();
                    let rt = matches!(serde_json::from_str::<MatchExt>(&t), Ok(x) if x == me);
                    v.push(json!({"nums": [me.token_type(), me.start(), me.end(), me.start_position().line,
                                           me.start_position().column, me.end_position().line, me.end_position().column],
                                  "text": t, "roundtrip": rt}));
                }
                for m in s.find_iter(input) {
                    let t = serde_json::to_string(&m).unwrap_or_default();
                    let rt = matches!(serde_json::from_str::<Match>(&t), Ok(x) if x == m);
                    v.push(json!({"nums": [m.token_type(), m.start(), m.end()], "text": t, "roundtrip": rt}));
                }
            }
            v
        });
        scanned = r.unwrap_or_default();
    }
    json!({"values": outs, "parsed": parsed, "scanned": scanned})
}

/// A configuration built through `build()` (the process-wide cache), `fillers` other
/// configurations built through it, then the configuration read back from its JSON text built
/// through it again: the scanner handed out must be the one the original configuration compiles to
/// (reference: `build_uncached` of the original).
fn job_cache_seq(job: &Value) -> Value {
    let mut res = Map::new();
    let r = catch_unwind(AssertUnwindSafe(|| {
        let modes = crate::modes_from_json(&job["modes"]);
        let text = serde_json::to_string(&modes).map_err(|e| e.to_string())?;
        let reread: Vec<ScannerMode> = serde_json::from_str(&text).map_err(|e| e.to_string())?;
        let empty = Vec::new();
        let inputs = job.get("inputs").and_then(|i| i.as_array()).unwrap_or(&empty);
        let (sref, cref, _) = crate::build(&modes, false);
        let Some(sref) = sref else { return Ok(json!({"build": cref})) };
        let dref = crate::dump_to_json(&scnr::verif::dump(&sref));
        let stref = streams(&sref, inputs);
        let (s1, c1, e1) = crate::build(&modes, true);
        let first_ok = s1.as_ref().map(|s| crate::dump_to_json(&scnr::verif::dump(s)) == dref).unwrap_or(false);
        let mut filler_fail = Vec::new();
        for (i, f) in job["fillers"].as_array().unwrap_or(&empty).iter().enumerate() {
            let fm = crate::modes_from_json(f);
            let (fs, fc, fe) = crate::build(&fm, true);
            if fs.is_none() {
                filler_fail.push(json!([i, fc, fe]));
            }
        }
        let (s2, c2, e2) = crate::build(&reread, true);
        let (late_dump_ok, late_streams_ok, st2) = match &s2 {
            Some(s) => {
                let st = streams(s, inputs);
                (crate::dump_to_json(&scnr::verif::dump(s)) == dref, st == stref, st)
            }
            None => (false, false, Vec::new()),
        };
        Ok::<Value, String>(json!({"build": "ok", "first": c1, "first_error": e1, "first_ok": first_ok,
            "late": c2, "late_error": e2, "late_dump_ok": late_dump_ok, "late_streams_ok": late_streams_ok,
            "streams_ref": stref, "streams_late": st2, "filler_failures": filler_fail, "equal": reread == modes}))
    }));
    match r {
        Ok(Ok(v)) => v,
        Ok(Err(e)) => {
            res.insert("error".into(), json!(e));
            Value::Object(res)
        }
        Err(p) => {
            res.insert("panic".into(), json!(crate::panic_message(p)));
            Value::Object(res)
        }
    }
}

pub fn run(kind: &str, job: &Value) -> Option<Value> {
    match kind {
        "json_cache_seq" => Some(job_cache_seq(job)),
        "json_roundtrip" => Some(job_roundtrip(job)),
        "json_parse" => Some(job_parse(job)),
        "json_values" => Some(job_values(job)),
        _ => None,
    }
}
