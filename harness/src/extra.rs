//! Further job kinds (cache histories, threads, serialization, DOT export).
use serde_json::{json, Value};

pub fn run(kind: &str, _job: &Value) -> Value {
    json!({"error": format!("unknown job kind {}", kind)})
}
