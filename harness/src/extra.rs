//! Dispatch to the per-property job modules.
use serde_json::{json, Value};

pub fn run(kind: &str, job: &Value) -> Value {
    if let Some(v) = crate::c08::run(kind, job) {
        return v;
    }
    if let Some(v) = crate::c13::run(kind, job) {
        return v;
    }
    if let Some(v) = crate::c14h::run(kind, job) {
        return v;
    }
    if let Some(v) = crate::c15::run(kind, job) {
        return v;
    }
    if let Some(v) = crate::c16::run(kind, job) {
        return v;
    }
    if let Some(v) = crate::c17::run(kind, job) {
        return v;
    }
    if let Some(v) = crate::c18::run(kind, job) {
        return v;
    }
    json!({"error": format!("unknown job kind {}", kind)})
}
