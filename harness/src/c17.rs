//! Job kinds of C17 (see lib/prop_c17.py). Returns None for kinds it does not know.
//!
//! `c17_build`: {"modes": [...], "inputs": [str, ...], "high": u64 (default 65536),
//!               "minlog_max_states": u64 (default 0)}
//!   builds the scanner (uncached), reports per mode the number of states of the compiled
//!   automaton, the accepting states of mode 0 whose index is >= `high` as [state, token type],
//!   the sizes of all minimizer runs, the recorded minimizer pairs whose input has at most
//!   `minlog_max_states` states, and for every input the complete token stream of
//!   `find_iter(input)` as [[token type, start, end], ...] (or {"panic": message}).
//!   The oracle is NOT computed here: lib/prop_c17.py derives the expected token streams from
//!   the pattern list itself and may pass them as "expected" (used only to decide for which
//!   inputs the blank-separated words are tokenized individually as well, see below).
use std::panic::{catch_unwind, AssertUnwindSafe};
use std::time::Instant;

use scnr::verif;
use serde_json::{json, Map, Value};

fn tokens(scanner: &scnr::Scanner, input: &str) -> Value {
    let r = catch_unwind(AssertUnwindSafe(|| {
        let mut out: Vec<[u64; 3]> = Vec::new();
        // a stream can never hold more tokens than the input has bytes; the bound turns a
        // non-terminating iterator into a reported defect instead of a hang
        let bound = input.len() + 2;
        for m in scanner.find_iter(input) {
            out.push([m.token_type() as u64, m.start() as u64, m.end() as u64]);
            if out.len() > bound {
                panic!("harness: more tokens than input bytes");
            }
        }
        out
    }));
    match r {
        Ok(v) => json!(v),
        Err(p) => json!({"panic": crate::panic_message(p)}),
    }
}

fn job_build(job: &Value) -> Value {
    let mut res = Map::new();
    let modes = match catch_unwind(|| crate::modes_from_json(&job["modes"])) {
        Ok(m) => m,
        Err(p) => {
            res.insert("build".into(), json!("panic"));
            res.insert("error".into(), json!(crate::panic_message(p)));
            return Value::Object(res);
        }
    };
    let high = job.get("high").and_then(|h| h.as_u64()).unwrap_or(65_536) as usize;
    let minlog_max = job.get("minlog_max_states").and_then(|h| h.as_u64()).unwrap_or(0) as usize;
    let _ = verif::take_minimizer_log();
    let t0 = Instant::now();
    let (scanner, class, msg) = crate::build(&modes, false);
    let build_ms = t0.elapsed().as_millis() as u64;
    let minlog = verif::take_minimizer_log();
    res.insert("build".into(), json!(class));
    res.insert("build_ms".into(), json!(build_ms));
    if !msg.is_empty() {
        res.insert("error".into(), json!(msg));
    }
    res.insert(
        "minimizer_sizes".into(),
        json!(minlog.iter().map(|(a, b)| [a.states.len(), b.states.len()]).collect::<Vec<_>>()),
    );
    if minlog_max > 0 {
        res.insert(
            "minlog".into(),
            Value::Array(
                minlog
                    .iter()
                    .filter(|(a, _)| a.states.len() <= minlog_max && a.lookaheads.is_empty())
                    .map(|(a, b)| json!([crate::dfa_to_json(a), crate::dfa_to_json(b)]))
                    .collect(),
            ),
        );
    }
    let Some(scanner) = scanner else {
        return Value::Object(res);
    };
    let dump = verif::dump(&scanner);
    res.insert("nstates".into(), json!(dump.modes.iter().map(|m| m.dfa.states.len()).collect::<Vec<_>>()));
    res.insert(
        "nedges".into(),
        json!(dump.modes.iter().map(|m| m.dfa.states.iter().map(|s| s.len()).sum::<usize>()).collect::<Vec<_>>()),
    );
    if let Some(m0) = dump.modes.first() {
        let acc: Vec<(usize, u32)> = m0
            .dfa
            .end_states
            .iter()
            .enumerate()
            .filter(|(_, e)| e.0)
            .map(|(i, e)| (i, e.1))
            .collect();
        res.insert("naccepting".into(), json!(acc.len()));
        res.insert(
            "high_accepting".into(),
            json!(acc.iter().filter(|(i, _)| *i >= high).map(|(i, t)| [*i as u64, *t as u64]).collect::<Vec<_>>()),
        );
        // largest target index used by an edge (shows whether high state ids are really in use)
        let max_target = m0.dfa.states.iter().flat_map(|s| s.iter().map(|e| e.1)).max().unwrap_or(0);
        res.insert("max_target".into(), json!(max_target));
    }
    let t1 = Instant::now();
    let mut streams = Vec::new();
    // "expected": per input the stream the caller expects, or null. For at most three inputs
    // whose stream differs, every blank-separated word is tokenized on its own as well, so that
    // the caller can name a single failing word.
    let expected = job.get("expected").and_then(|e| e.as_array());
    let mut split = Map::new();
    if let Some(inputs) = job.get("inputs").and_then(|i| i.as_array()) {
        for (i, inp) in inputs.iter().enumerate() {
            let inp = inp.as_str().unwrap_or("");
            let got = tokens(&scanner, inp);
            if let Some(exp) = expected.and_then(|e| e.get(i)) {
                if !exp.is_null() && *exp != got && split.len() < 3 && inp.contains(' ') {
                    let words: Vec<Value> =
                        inp.split(' ').filter(|w| !w.is_empty()).map(|w| json!([w, tokens(&scanner, w)])).collect();
                    split.insert(i.to_string(), Value::Array(words));
                }
            }
            streams.push(got);
        }
    }
    res.insert("streams".into(), Value::Array(streams));
    res.insert("split".into(), Value::Object(split));
    res.insert("scan_ms".into(), json!(t1.elapsed().as_millis() as u64));
    Value::Object(res)
}

pub fn run(kind: &str, job: &Value) -> Option<Value> {
    match kind {
        "c17_build" => Some(job_build(job)),
        _ => None,
    }
}
