//! Job kinds of C13 (cache transparency) and C14 (thread safety); see lib/prop_c13.py and
//! lib/prop_c14.py. Returns None for kinds it does not know.
//!
//! `cache_history`: a list of build steps executed in THIS process in order (the scanner cache is
//! process-global, so the driver starts one process per history). Every step builds the same
//! modes through the cache and twice without it and records everything observable.
//!
//! `thread_stress`: N threads started together behind a barrier, each performing a list of
//! actions (builds through the shared cache, scans with shared and private scanners) under a
//! wall-clock watchdog; with `"sequential": true` the same actions are executed one thread after
//! the other on the calling thread (the reference run, in a fresh process).
use std::panic::{catch_unwind, AssertUnwindSafe};
use std::sync::atomic::{AtomicUsize, Ordering};
use std::sync::{mpsc, Arc, Barrier};
use std::time::{Duration, Instant};

use scnr::{Scanner, ScannerMode, ScannerModeSwitcher};
use serde_json::{json, Map, Value};

/// C14, first half: if `Scanner` loses `Send` or `Sync` the harness does not compile any more and
/// the driver reports the compiler error.
fn assert_send_sync<T: Send + Sync>() {}
#[allow(dead_code)]
const SCANNER_IS_SEND_AND_SYNC: fn() = || assert_send_sync::<Scanner>();

pub fn run(kind: &str, job: &Value) -> Option<Value> {
    match kind {
        "cache_history" => Some(cache_history(job)),
        "thread_stress" => Some(thread_stress(job)),
        _ => None,
    }
}

// ---------------------------------------------------------------------------------------------
// shared helpers

/// Sorts the edge list of every state (the order inside a state is hash-set iteration order and
/// may differ between two compilations of the same modes).
fn canon_dfa(d: &mut Value) {
    if let Some(states) = d.get_mut("states").and_then(|s| s.as_array_mut()) {
        for s in states {
            if let Some(es) = s.as_array_mut() {
                es.sort_by_key(|e| (e[0].as_u64().unwrap_or(0), e[1].as_u64().unwrap_or(0)));
            }
        }
    }
    if let Some(las) = d.get_mut("las").and_then(|l| l.as_array_mut()) {
        for l in las {
            if let Some(inner) = l.get_mut(2) {
                canon_dfa(inner);
            }
        }
    }
}

fn canon_dump(scanner: &Scanner) -> Value {
    let mut v = crate::dump_to_json(&scnr::verif::dump(scanner));
    if let Some(modes) = v.get_mut("modes").and_then(|m| m.as_array_mut()) {
        for m in modes {
            if let Some(d) = m.get_mut("dfa") {
                canon_dfa(d);
            }
        }
    }
    v
}

fn modes_of(v: &Value) -> Result<Vec<ScannerMode>, String> {
    catch_unwind(|| crate::modes_from_json(v)).map_err(crate::panic_message)
}

fn next_ops(input: &str) -> Vec<Value> {
    (0..input.chars().count() + 2).map(|_| json!(["next"])).collect()
}

fn streams(scanner: &Scanner, inputs: &[String]) -> Value {
    Value::Array(
        inputs
            .iter()
            .map(|inp| json!(crate::run_ops(scanner, inp, &next_ops(inp), false)))
            .collect(),
    )
}

fn strings_of(v: Option<&Value>) -> Vec<String> {
    v.and_then(|i| i.as_array())
        .map(|a| a.iter().map(|s| s.as_str().unwrap_or("").to_string()).collect())
        .unwrap_or_default()
}

/// Everything observable about one build: outcome class, message, and for a scanner the
/// canonical dump (automata, mode names, transitions, classes, current mode) and token streams.
fn observe(built: (Option<Scanner>, &'static str, String), inputs: &[String]) -> (Option<Scanner>, Value) {
    let (scanner, class, msg) = built;
    let mut o = Map::new();
    o.insert("class".into(), json!(class));
    if !msg.is_empty() {
        o.insert("msg".into(), json!(msg));
    }
    if let Some(s) = &scanner {
        match catch_unwind(AssertUnwindSafe(|| (s.current_mode(), canon_dump(s), streams(s, inputs)))) {
            Ok((mode, dump, st)) => {
                o.insert("current_mode".into(), json!(mode));
                o.insert("dump".into(), dump);
                o.insert("streams".into(), st);
            }
            Err(p) => {
                o.insert("observe_panic".into(), json!(crate::panic_message(p)));
            }
        }
    }
    (scanner, Value::Object(o))
}

// ---------------------------------------------------------------------------------------------
// C13: one history of builds in this process

fn cache_history(job: &Value) -> Value {
    let steps = job["steps"].as_array().cloned().unwrap_or_default();
    let mut out = Vec::new();
    // scanners handed out by the cache stay alive (and possibly poked) until the end
    let mut kept: Vec<(usize, Scanner, Vec<String>)> = Vec::new();
    for (i, step) in steps.iter().enumerate() {
        let mut r = Map::new();
        let inputs = strings_of(step.get("inputs"));
        let modes = match modes_of(&step["modes"]) {
            Ok(m) => m,
            Err(p) => {
                r.insert("modes_panic".into(), json!(p));
                out.push(Value::Object(r));
                continue;
            }
        };
        // the order of the cached and the first uncached build alternates with the step flag
        let uncached_first = step.get("uncached_first").and_then(|b| b.as_bool()).unwrap_or(false);
        let (cached, u1);
        if uncached_first {
            u1 = observe(crate::build(&modes, false), &inputs);
            cached = observe(crate::build(&modes, true), &inputs);
        } else {
            cached = observe(crate::build(&modes, true), &inputs);
            u1 = observe(crate::build(&modes, false), &inputs);
        }
        let u2 = observe(crate::build(&modes, false), &inputs);
        r.insert("cached".into(), cached.1);
        r.insert("uncached".into(), u1.1);
        r.insert("uncached2".into(), u2.1);
        if let Some(mut s) = cached.0 {
            // use of a handed-out scanner must not leak into the cache: switch its mode, scan
            if let Some(p) = step.get("poke") {
                let poked = catch_unwind(AssertUnwindSafe(|| {
                    if let Some(m) = p.get("set_mode").and_then(|m| m.as_u64()) {
                        s.set_mode(m as usize);
                    }
                    if let Some(inp) = p.get("scan").and_then(|x| x.as_str()) {
                        let mut it = s.find_iter(inp);
                        if let Some(m) = p.get("iter_mode").and_then(|m| m.as_u64()) {
                            it.set_mode(m as usize);
                        }
                        let _ = it.by_ref().count();
                    }
                    s.current_mode()
                }));
                match poked {
                    Ok(m) => r.insert("poked_mode".into(), json!(m)),
                    Err(p) => r.insert("poke_panic".into(), json!(crate::panic_message(p))),
                };
            }
            kept.push((i, s, inputs));
        }
        out.push(Value::Object(r));
    }
    // earlier scanners still behave as when they were handed out (find_iter starts in mode 0)
    let fin: Vec<Value> = kept
        .iter()
        .map(|(i, s, inputs)| json!({"step": i, "streams": streams(s, inputs)}))
        .collect();
    json!({"steps": out, "final": fin})
}

// ---------------------------------------------------------------------------------------------
// C14: threads

struct Stress {
    configs: Vec<Value>,
    inputs: Vec<String>,
    shared: Vec<Arc<Scanner>>,
    ticket: AtomicUsize,
}

fn ops_of(v: Option<&Value>, input: &str) -> Vec<Value> {
    match v.and_then(|o| o.as_array()) {
        Some(a) if !a.is_empty() => a.clone(),
        _ => next_ops(input),
    }
}

/// One action of one thread. `private` is the thread's own scanner.
fn act(st: &Stress, action: &Value, private: &mut Option<Scanner>) -> Value {
    let name = action[0].as_str().unwrap_or("");
    let idx = |k: usize| action.get(k).and_then(|v| v.as_u64()).unwrap_or(0) as usize;
    let r = catch_unwind(AssertUnwindSafe(|| match name {
        "build" | "build_scan" | "priv_build" => {
            let modes = match modes_of(&st.configs[idx(1)]) {
                Ok(m) => m,
                Err(p) => return json!({"a": name, "modes_panic": p}),
            };
            let inputs: Vec<String> = if name == "build_scan" { vec![st.inputs[idx(2)].clone()] } else { vec![] };
            let (s, mut o) = observe(crate::build(&modes, true), &[]);
            // the ticket orders the builds of all threads (an interleaving of the build steps)
            let t = st.ticket.fetch_add(1, Ordering::SeqCst);
            let m = o.as_object_mut().unwrap();
            m.insert("a".into(), json!(name));
            m.insert("cfg".into(), json!(idx(1)));
            m.insert("ticket".into(), json!(t));
            if let Some(s) = s {
                if name == "build_scan" {
                    let ops = ops_of(action.get(3), &inputs[0]);
                    m.insert("outs".into(), json!(crate::run_ops(&s, &inputs[0], &ops, false)));
                }
                if name == "priv_build" {
                    *private = Some(s);
                }
            }
            o
        }
        "scan_shared" => {
            let s = &st.shared[idx(1)];
            let inp = &st.inputs[idx(2)];
            let ops = ops_of(action.get(3), inp);
            json!({"a": name, "outs": crate::run_ops(s, inp, &ops, false), "scanner_mode": s.current_mode()})
        }
        "priv_scan" => match private {
            Some(s) => {
                let inp = &st.inputs[idx(1)];
                let ops = ops_of(action.get(2), inp);
                json!({"a": name, "outs": crate::run_ops(s, inp, &ops, false), "scanner_mode": s.current_mode()})
            }
            None => json!({"a": name, "none": true}),
        },
        "priv_set_mode" => match private {
            Some(s) => {
                s.set_mode(idx(1));
                json!({"a": name, "scanner_mode": s.current_mode()})
            }
            None => json!({"a": name, "none": true}),
        },
        other => json!({"a": other, "unknown_action": true}),
    }));
    match r {
        Ok(v) => v,
        Err(p) => json!({"a": name, "panic": crate::panic_message(p)}),
    }
}

fn run_thread(st: &Stress, actions: &[Value], mut private: Option<Scanner>) -> Vec<Value> {
    actions.iter().map(|a| act(st, a, &mut private)).collect()
}

/// Runs the whole job (set-up builds included) on a helper thread so that a call that never
/// returns is reported instead of hanging the harness.
fn thread_stress(job: &Value) -> Value {
    let watchdog = Duration::from_millis(job.get("watchdog_ms").and_then(|w| w.as_u64()).unwrap_or(60_000));
    let job = job.clone();
    let (tx, rx) = mpsc::channel::<Value>();
    let spawned = std::thread::Builder::new().name("stress-main".into()).spawn(move || {
        let r = catch_unwind(AssertUnwindSafe(|| stress_inner(&job)));
        let _ = tx.send(r.unwrap_or_else(|p| json!({"harness_panic": crate::panic_message(p)})));
    });
    if let Err(e) = spawned {
        return json!({"setup_error": format!("cannot spawn: {}", e)});
    }
    match rx.recv_timeout(watchdog + Duration::from_secs(5)) {
        Ok(v) => v,
        Err(_) => json!({"threads": [], "timeout": true, "finished": 0,
                         "phase": "set-up builds or sequential reference did not return"}),
    }
}

fn stress_inner(job: &Value) -> Value {
    let configs: Vec<Value> = job["configs"].as_array().cloned().unwrap_or_default();
    let inputs = strings_of(job.get("inputs"));
    let threads: Vec<Vec<Value>> = job["threads"]
        .as_array()
        .map(|t| t.iter().map(|a| a.as_array().cloned().unwrap_or_default()).collect())
        .unwrap_or_default();
    let sequential = job.get("sequential").and_then(|b| b.as_bool()).unwrap_or(false);
    let watchdog = Duration::from_millis(job.get("watchdog_ms").and_then(|w| w.as_u64()).unwrap_or(60_000));
    // scanners shared by all threads, built by this thread before the start
    let mut shared = Vec::new();
    for sh in job["shared"].as_array().cloned().unwrap_or_default() {
        let ci = sh["config"].as_u64().unwrap_or(0) as usize;
        let cached = sh.get("cached").and_then(|b| b.as_bool()).unwrap_or(true);
        let modes = match modes_of(&configs[ci]) {
            Ok(m) => m,
            Err(p) => return json!({"setup_error": format!("modes of shared config {}: {}", ci, p)}),
        };
        match crate::build(&modes, cached) {
            (Some(mut s), _, _) => {
                if let Some(m) = sh.get("set_mode").and_then(|m| m.as_u64()) {
                    s.set_mode(m as usize);
                }
                shared.push(Arc::new(s));
            }
            (None, class, msg) => return json!({"setup_error": format!("shared config {} does not build: {} {}", ci, class, msg)}),
        }
    }
    // scanners built here and MOVED into their thread (Send)
    let mut moved: Vec<Option<Scanner>> = Vec::new();
    let moved_cfg = job.get("moved").and_then(|m| m.as_array()).cloned().unwrap_or_default();
    for t in 0..threads.len() {
        let s = match moved_cfg.get(t).and_then(|c| c.as_u64()) {
            Some(ci) => match modes_of(&configs[ci as usize]) {
                Ok(modes) => crate::build(&modes, true).0,
                Err(_) => None,
            },
            None => None,
        };
        moved.push(s);
    }
    let st = Arc::new(Stress { configs, inputs, shared, ticket: AtomicUsize::new(0) });
    let n = threads.len();
    let t0 = Instant::now();
    let mut results: Vec<Value> = vec![Value::Null; n];
    if sequential {
        for (t, (actions, private)) in threads.iter().zip(moved).enumerate() {
            results[t] = Value::Array(run_thread(&st, actions, private));
        }
        return json!({"threads": results, "timeout": false, "elapsed_ms": t0.elapsed().as_millis() as u64});
    }
    let barrier = Arc::new(Barrier::new(n));
    let (tx, rx) = mpsc::channel::<(usize, Result<Vec<Value>, String>)>();
    for (t, (actions, private)) in threads.into_iter().zip(moved).enumerate() {
        let st = st.clone();
        let barrier = barrier.clone();
        let tx = tx.clone();
        let spawned = std::thread::Builder::new().name(format!("stress{}", t)).spawn(move || {
            barrier.wait();
            let r = catch_unwind(AssertUnwindSafe(|| run_thread(&st, &actions, private)));
            let _ = tx.send((t, r.map_err(crate::panic_message)));
        });
        if let Err(e) = spawned {
            return json!({"setup_error": format!("cannot spawn thread {}: {}", t, e)});
        }
    }
    drop(tx);
    let deadline = t0 + watchdog;
    let mut done = 0;
    let mut timeout = false;
    while done < n {
        let left = deadline.saturating_duration_since(Instant::now());
        match rx.recv_timeout(left) {
            Ok((t, Ok(r))) => {
                results[t] = Value::Array(r);
                done += 1;
            }
            Ok((t, Err(p))) => {
                results[t] = json!({"thread_panic": p});
                done += 1;
            }
            Err(mpsc::RecvTimeoutError::Timeout) => {
                // deadlock or livelock: report; the stuck threads die with the process
                timeout = true;
                break;
            }
            Err(mpsc::RecvTimeoutError::Disconnected) => break,
        }
    }
    json!({"threads": results, "timeout": timeout, "finished": done, "elapsed_ms": t0.elapsed().as_millis() as u64})
}
