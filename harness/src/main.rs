//! Executor of verification jobs against the scnr implementation in /repo.
//!
//! usage: scnr_verif_harness <jobs.json> <results.jsonl> [threads]
//! jobs.json: {"jobs":[{...},...]}; one result object per line, in job order.

use std::collections::{BTreeMap, BTreeSet, HashMap};
use std::panic::{catch_unwind, AssertUnwindSafe};
use std::sync::{Arc, Mutex};

use scnr::verif::{self, DfaDump, ScannerDump};
use scnr::{
    Lookahead, MatchExtIterator, Pattern, PeekResult, PositionProvider, Scanner, ScannerBuilder,
    ScannerMode, ScannerModeSwitcher, ScnrErrorKind,
};
use serde_json::{json, Map, Value};

mod c08;
mod c13;
mod c14h;
mod c15;
mod c16;
mod c17;
mod c18;
mod extra;

pub const PANIC_CODE: u64 = 999_999;

// ---------------------------------------------------------------------------------------------
// configuration <-> JSON

pub fn modes_from_json(v: &Value) -> Vec<ScannerMode> {
    v.as_array()
        .expect("modes")
        .iter()
        .map(|m| {
            let pats: Vec<Pattern> = m["patterns"]
                .as_array()
                .expect("patterns")
                .iter()
                .map(|p| {
                    let pat = Pattern::new(
                        p["p"].as_str().expect("p").to_string(),
                        p["t"].as_u64().expect("t") as usize,
                    );
                    match p.get("la") {
                        Some(la) if !la.is_null() => pat.with_lookahead(Lookahead::new(
                            la["pos"].as_bool().expect("pos"),
                            la["p"].as_str().expect("la.p").to_string(),
                        )),
                        _ => pat,
                    }
                })
                .collect();
            let trans: Vec<(usize, usize)> = m["transitions"]
                .as_array()
                .map(|a| {
                    a.iter()
                        .map(|t| (t[0].as_u64().unwrap() as usize, t[1].as_u64().unwrap() as usize))
                        .collect()
                })
                .unwrap_or_default();
            ScannerMode::new(m["name"].as_str().unwrap_or("M"), pats, trans)
        })
        .collect()
}

pub fn dfa_to_json(d: &DfaDump) -> Value {
    json!({
        "states": d.states,
        "end": d.end_states,
        "tids": d.terminal_ids,
        "las": d.lookaheads.iter().map(|(t, p, l)| json!([t, p, dfa_to_json(l)])).collect::<Vec<_>>(),
    })
}

pub fn dfa_from_json(v: &Value) -> DfaDump {
    DfaDump {
        patterns: vec!["verif".to_string()],
        terminal_ids: v["tids"].as_array().unwrap().iter().map(|t| t.as_u64().unwrap() as u32).collect(),
        states: v["states"]
            .as_array()
            .unwrap()
            .iter()
            .map(|s| {
                s.as_array()
                    .unwrap()
                    .iter()
                    .map(|e| (e[0].as_u64().unwrap() as u32, e[1].as_u64().unwrap() as u32))
                    .collect()
            })
            .collect(),
        end_states: v["end"]
            .as_array()
            .unwrap()
            .iter()
            .map(|e| (e[0].as_bool().unwrap(), e[1].as_u64().unwrap() as u32))
            .collect(),
        lookaheads: v
            .get("las")
            .and_then(|l| l.as_array())
            .map(|a| {
                a.iter()
                    .map(|l| (l[0].as_u64().unwrap() as u32, l[1].as_bool().unwrap(), dfa_from_json(&l[2])))
                    .collect()
            })
            .unwrap_or_default(),
    }
}

pub fn dump_to_json(d: &ScannerDump) -> Value {
    json!({
        "modes": d.modes.iter().map(|m| json!({
            "name": m.name, "dfa": dfa_to_json(&m.dfa), "transitions": m.transitions,
        })).collect::<Vec<_>>(),
        "classes": d.classes,
        "current_mode": d.current_mode,
    })
}

pub fn error_class(e: &scnr::ScnrError) -> &'static str {
    match &*e.source {
        ScnrErrorKind::RegexSyntaxError(_, _) => "syntax",
        ScnrErrorKind::IoError(_) => "io",
        ScnrErrorKind::UnsupportedFeature(_) => "unsupported",
        ScnrErrorKind::EmptyToken => "empty",
    }
}

pub fn panic_message(p: Box<dyn std::any::Any + Send>) -> String {
    if let Some(s) = p.downcast_ref::<&str>() {
        s.to_string()
    } else if let Some(s) = p.downcast_ref::<String>() {
        s.clone()
    } else {
        "panic".to_string()
    }
}

/// Builds a scanner; outcome class, message.
pub fn build(modes: &[ScannerMode], cached: bool) -> (Option<Scanner>, &'static str, String) {
    let modes = modes.to_vec();
    let r = catch_unwind(AssertUnwindSafe(|| {
        let b = ScannerBuilder::new().add_scanner_modes(&modes);
        if cached {
            b.build()
        } else {
            b.build_uncached()
        }
    }));
    match r {
        Ok(Ok(s)) => (Some(s), "ok", String::new()),
        Ok(Err(e)) => (None, error_class(&e), e.to_string()),
        Err(p) => (None, "panic", panic_message(p)),
    }
}

// ---------------------------------------------------------------------------------------------
// leaves of the pattern ASTs and their observed semantics

pub fn collect_leaves(ast: &Value, out: &mut BTreeSet<String>) {
    match ast["k"].as_str().unwrap_or("") {
        "lit" | "dot" | "cls_unicode" | "cls_perl" | "cls_bracketed" => {
            out.insert(ast["s"].as_str().unwrap().to_string());
        }
        "rep" | "group" => collect_leaves(&ast["a"], out),
        "alt" | "concat" => {
            for a in ast["as"].as_array().unwrap() {
                collect_leaves(a, out);
            }
        }
        _ => {}
    }
}

pub type LeafCache = Mutex<HashMap<String, Option<Arc<Scanner>>>>;

/// The scanner with the single pattern `leaf` (None if it does not build).
pub fn leaf_scanner(cache: &LeafCache, leaf: &str) -> Option<Arc<Scanner>> {
    if let Some(s) = cache.lock().unwrap().get(leaf) {
        return s.clone();
    }
    let modes = vec![ScannerMode::new("L", vec![Pattern::new(leaf.to_string(), 0)], vec![])];
    let (s, _, _) = build(&modes, false);
    let s = s.map(Arc::new);
    cache.lock().unwrap().insert(leaf.to_string(), s.clone());
    s
}

/// Does the one-pattern scanner of the leaf match the single character c?
pub fn leaf_matches(s: &Scanner, c: char) -> bool {
    let mut buf = [0u8; 4];
    let text: &str = c.encode_utf8(&mut buf);
    let mut it = s.find_iter(text);
    matches!(it.next(), Some(m) if m.start() == 0 && m.end() == text.len())
}

// ---------------------------------------------------------------------------------------------
// the scan job

pub fn enc_match(m: &scnr::Match) -> Vec<u64> {
    vec![m.token_type() as u64, m.start() as u64, m.end() as u64]
}

pub fn run_ops(scanner: &Scanner, input: &str, ops: &[Value], with_positions: bool) -> Vec<Vec<u64>> {
    let mut outs: Vec<Vec<u64>> = Vec::new();
    let r = catch_unwind(AssertUnwindSafe(|| {
        if with_positions {
            let mut it = scanner.find_iter(input).with_positions();
            for op in ops {
                let name = op[0].as_str().unwrap();
                let arg = op.get(1).and_then(|a| a.as_u64()).unwrap_or(0) as usize;
                let out = match name {
                    "nextpos" => match it.next() {
                        None => vec![0],
                        Some(m) => vec![
                            1,
                            m.token_type() as u64,
                            m.start() as u64,
                            m.end() as u64,
                            m.start_position().line as u64,
                            m.start_position().column as u64,
                            m.end_position().line as u64,
                            m.end_position().column as u64,
                        ],
                    },
                    "set_offset" => {
                        it.set_offset(arg);
                        vec![]
                    }
                    "set_mode" => {
                        it.set_mode(arg);
                        vec![]
                    }
                    "position" => {
                        let p = it.position(arg);
                        vec![p.line as u64, p.column as u64]
                    }
                    "current_mode" => vec![it.current_mode() as u64],
                    other => panic!("harness: op {} not available with positions", other),
                };
                outs.push(out);
            }
        } else {
            let mut it = scanner.find_iter(input);
            let mut first = true;
            let mut last_peek_ends: Vec<usize> = Vec::new();
            for op in ops {
                let name = op[0].as_str().unwrap();
                let arg = op.get(1).and_then(|a| a.as_u64()).unwrap_or(0) as usize;
                let out = match name {
                    "next" => match it.next() {
                        None => vec![0],
                        Some(m) => {
                            let mut v = vec![1];
                            v.extend(enc_match(&m));
                            v
                        }
                    },
                    "peek" => match it.peek_n(arg) {
                        PeekResult::Matches(ms) => {
                            last_peek_ends = ms.iter().map(|m| m.end()).collect();
                            let mut v = vec![1, ms.len() as u64];
                            ms.iter().for_each(|m| v.extend(enc_match(m)));
                            v
                        }
                        PeekResult::MatchesReachedEnd(ms) => {
                            last_peek_ends = ms.iter().map(|m| m.end()).collect();
                            let mut v = vec![2, ms.len() as u64];
                            ms.iter().for_each(|m| v.extend(enc_match(m)));
                            v
                        }
                        PeekResult::MatchesReachedModeSwitch((ms, mode)) => {
                            last_peek_ends = ms.iter().map(|m| m.end()).collect();
                            let mut v = vec![3, ms.len() as u64];
                            ms.iter().for_each(|m| v.extend(enc_match(m)));
                            v.push(mode as u64);
                            v
                        }
                        PeekResult::NotFound => {
                            last_peek_ends.clear();
                            vec![4]
                        }
                    },
                    "set_offset" => {
                        if first {
                            // exercise the by-value variant on a fresh iterator
                            it = it.with_offset(arg);
                        } else {
                            it.set_offset(arg);
                        }
                        vec![]
                    }
                    "advance_to" => vec![it.advance_to(arg) as u64],
                    "advance_to_peeked" => {
                        // advance to the end of the arg-th match (modulo) of the last peek result
                        let p = if last_peek_ends.is_empty() { 0 } else { last_peek_ends[arg % last_peek_ends.len()] };
                        vec![it.advance_to(p) as u64]
                    }
                    "set_mode" => {
                        it.set_mode(arg);
                        vec![]
                    }
                    "position" => {
                        let p = it.position(arg);
                        vec![p.line as u64, p.column as u64]
                    }
                    "current_mode" => vec![it.current_mode() as u64],
                    "offset" => vec![it.offset() as u64],
                    other => panic!("harness: unknown op {}", other),
                };
                first = false;
                outs.push(out);
            }
        }
    }));
    if r.is_err() {
        outs.push(vec![PANIC_CODE]);
    }
    outs
}

pub fn distinct_chars(job: &Value) -> Vec<char> {
    let mut set: BTreeSet<char> = BTreeSet::new();
    if let Some(s) = job.get("input").and_then(|i| i.as_str()) {
        set.extend(s.chars());
    }
    if let Some(inputs) = job.get("inputs").and_then(|i| i.as_array()) {
        for s in inputs {
            set.extend(s.as_str().unwrap_or("").chars());
        }
    }
    if let Some(cs) = job.get("chars").and_then(|c| c.as_array()) {
        for c in cs {
            if let Some(c) = char::from_u32(c.as_u64().unwrap() as u32) {
                set.insert(c);
            }
        }
    }
    set.into_iter().collect()
}

/// ASTs of all patterns and lookaheads of a configuration as the crate parses them.
pub fn asts_of(modes_json: &Value) -> (Value, BTreeSet<String>) {
    let mut leaves = BTreeSet::new();
    let mut per_mode = Vec::new();
    for m in modes_json.as_array().unwrap() {
        let mut per_pat = Vec::new();
        for p in m["patterns"].as_array().unwrap() {
            let parse = |s: &str, leaves: &mut BTreeSet<String>| -> Value {
                match catch_unwind(|| verif::parse(s)) {
                    Ok(Ok(j)) => {
                        let v: Value = serde_json::from_str(&j).expect("ast json");
                        collect_leaves(&v, leaves);
                        v
                    }
                    Ok(Err(e)) => json!({"k":"syntax_error","s":e}),
                    Err(_) => json!({"k":"parse_panic"}),
                }
            };
            let pa = parse(p["p"].as_str().unwrap(), &mut leaves);
            let la = match p.get("la") {
                Some(la) if !la.is_null() => parse(la["p"].as_str().unwrap(), &mut leaves),
                _ => Value::Null,
            };
            per_pat.push(json!([pa, la]));
        }
        per_mode.push(Value::Array(per_pat));
    }
    (Value::Array(per_mode), leaves)
}

fn job_scan(job: &Value, leaf_cache: &LeafCache) -> Value {
    let mut res = Map::new();
    let modes_json = &job["modes"];
    let modes = match catch_unwind(|| modes_from_json(modes_json)) {
        Ok(m) => m,
        Err(p) => {
            // ScannerMode::new asserts sorted transitions in debug builds
            res.insert("build".into(), json!("panic"));
            res.insert("error".into(), json!(panic_message(p)));
            return Value::Object(res);
        }
    };
    let cached = job.get("cached").and_then(|c| c.as_bool()).unwrap_or(false);
    let simple = job.get("simple").and_then(|c| c.as_bool()).unwrap_or(false);
    // configurations built through the cache BEFORE the one under test (near-identical ones: the scanner under
    // test must be the one ITS configuration compiles to, whatever was built before)
    if let Some(pre) = job.get("prebuild").and_then(|p| p.as_array()) {
        for pm in pre {
            if let Ok(m) = catch_unwind(AssertUnwindSafe(|| modes_from_json(pm))) {
                let _ = build(&m, true);
            }
        }
    }
    let _ = verif::take_minimizer_log();
    let (scanner, class, msg) = if simple {
        // ScannerBuilder::add_patterns: one mode, token type = index of the pattern
        let pats: Vec<String> = modes_json[0]["patterns"].as_array().unwrap().iter().map(|p| p["p"].as_str().unwrap().to_string()).collect();
        // documented: "all previously added scanner modes will be ignored after calling this method"
        let pre: Vec<ScannerMode> = match job.get("simple_pre") {
            Some(pm) => catch_unwind(AssertUnwindSafe(|| modes_from_json(pm))).unwrap_or_default(),
            None => Vec::new(),
        };
        match catch_unwind(AssertUnwindSafe(|| ScannerBuilder::new().add_scanner_modes(&pre).add_patterns(pats).build())) {
            Ok(Ok(s)) => (Some(s), "ok", String::new()),
            Ok(Err(e)) => (None, error_class(&e), e.to_string()),
            Err(p) => (None, "panic", panic_message(p)),
        }
    } else {
        build(&modes, cached)
    };
    let minlog = verif::take_minimizer_log();
    res.insert("build".into(), json!(class));
    if !msg.is_empty() {
        res.insert("error".into(), json!(msg));
    }
    let want = |k: &str| job.get("want").and_then(|w| w.get(k)).and_then(|b| b.as_bool()).unwrap_or(false);
    let chars = distinct_chars(job);
    if want("asts") {
        let (asts, leaves) = asts_of(modes_json);
        res.insert("asts".into(), asts);
        let mut leaf_tbl = Map::new();
        for leaf in leaves {
            let v = match leaf_scanner(leaf_cache, &leaf) {
                Some(s) => Value::Array(
                    chars.iter().filter(|c| leaf_matches(&s, **c)).map(|c| json!(*c as u32)).collect(),
                ),
                None => Value::Null,
            };
            leaf_tbl.insert(leaf, v);
        }
        res.insert("leaf".into(), Value::Object(leaf_tbl));
    }
    if let Some(mut scanner) = scanner {
        let dump = verif::dump(&scanner);
        if want("dump") {
            res.insert("dump".into(), dump_to_json(&dump));
        }
        if want("minlog") {
            res.insert(
                "minlog".into(),
                Value::Array(minlog.iter().map(|(a, b)| json!([dfa_to_json(a), dfa_to_json(b)])).collect()),
            );
        }
        if want("cls") {
            let mut cls = Map::new();
            for cc in 0..dump.classes.len() as u32 {
                let v: Vec<u32> = chars
                    .iter()
                    .filter(|c| verif::match_class(&scanner, cc, **c) == Some(true))
                    .map(|c| *c as u32)
                    .collect();
                cls.insert(cc.to_string(), json!(v));
            }
            res.insert("cls".into(), Value::Object(cls));
        }
        if let Some(m) = job.get("scanner_mode").and_then(|m| m.as_u64()) {
            scanner.set_mode(m as usize);
        }
        let with_positions = job.get("with_positions").and_then(|b| b.as_bool()).unwrap_or(false);
        if let Some(ops) = job.get("ops").and_then(|o| o.as_array()) {
            let input = job["input"].as_str().unwrap_or("");
            res.insert("outs".into(), json!(run_ops(&scanner, input, ops, with_positions)));
        }
        if let Some(inputs) = job.get("inputs").and_then(|i| i.as_array()) {
            // plain token streams for several inputs
            let mut all = Vec::new();
            for inp in inputs {
                let inp = inp.as_str().unwrap_or("");
                let n = inp.chars().count() + 2;
                let ops: Vec<Value> = (0..n).map(|_| json!(["next"])).collect();
                all.push(json!(run_ops(&scanner, inp, &ops, false)));
            }
            res.insert("streams".into(), Value::Array(all));
        }
    }
    Value::Object(res)
}

// ---------------------------------------------------------------------------------------------
// minterm sweep: partition of all scalar values by (registered classes, leaves)

const NWORDS: usize = (0x110000 + 63) / 64;
type BitsetCache = Mutex<HashMap<String, Option<Arc<Vec<u64>>>>>;
static LEAF_BITS: std::sync::LazyLock<BitsetCache> = std::sync::LazyLock::new(|| Mutex::new(HashMap::new()));

/// Membership of every scalar value in the one-pattern scanner of a leaf (cached per leaf text).
pub fn leaf_bitset(leaf_cache: &LeafCache, leaf: &str) -> Option<Arc<Vec<u64>>> {
    if let Some(b) = LEAF_BITS.lock().unwrap().get(leaf) {
        return b.clone();
    }
    let b = leaf_scanner(leaf_cache, leaf).map(|s| {
        let mut bits = vec![0u64; NWORDS];
        for cp in 0..=0x10FFFFu32 {
            if let Some(c) = char::from_u32(cp) {
                if leaf_matches(&s, c) {
                    bits[cp as usize / 64] |= 1 << (cp % 64);
                }
            }
        }
        Arc::new(bits)
    });
    LEAF_BITS.lock().unwrap().insert(leaf.to_string(), b.clone());
    b
}

fn job_sweep(job: &Value, leaf_cache: &LeafCache) -> Value {
    let modes_json = &job["modes"];
    let modes = modes_from_json(modes_json);
    let _ = verif::take_minimizer_log();
    let (scanner, class, msg) = build(&modes, false);
    let minlog = verif::take_minimizer_log();
    let mut res = Map::new();
    res.insert("build".into(), json!(class));
    if !msg.is_empty() {
        res.insert("error".into(), json!(msg));
    }
    let (asts, leaves) = asts_of(modes_json);
    res.insert("asts".into(), asts);
    let Some(scanner) = scanner else {
        return Value::Object(res);
    };
    let dump = verif::dump(&scanner);
    let ncls = dump.classes.len();
    let leaves: Vec<String> = leaves.into_iter().collect();
    let leaf_bits: Vec<Option<Arc<Vec<u64>>>> = leaves.iter().map(|l| leaf_bitset(leaf_cache, l)).collect();
    // signature -> (representative, count)
    let mut sigs: HashMap<Vec<u8>, (u32, u32)> = HashMap::new();
    let nbits = ncls + leaves.len();
    for cp in 0..=0x10FFFFu32 {
        let Some(c) = char::from_u32(cp) else { continue };
        let mut sig = vec![0u8; nbits.div_ceil(8)];
        for cc in 0..ncls {
            if verif::match_class(&scanner, cc as u32, c) == Some(true) {
                sig[cc / 8] |= 1 << (cc % 8);
            }
        }
        for (i, lb) in leaf_bits.iter().enumerate() {
            if let Some(lb) = lb {
                if lb[cp as usize / 64] & (1 << (cp % 64)) != 0 {
                    let b = ncls + i;
                    sig[b / 8] |= 1 << (b % 8);
                }
            }
        }
        sigs.entry(sig).and_modify(|e| e.1 += 1).or_insert((cp, 1));
    }
    let mut minterms: Vec<(u32, u32, Vec<u8>)> = sigs.into_iter().map(|(s, (r, n))| (r, n, s)).collect();
    minterms.sort();
    let bit = |s: &Vec<u8>, b: usize| s[b / 8] & (1 << (b % 8)) != 0;
    res.insert(
        "minterms".into(),
        Value::Array(
            minterms
                .iter()
                .map(|(r, n, s)| {
                    json!({
                        "rep": r, "count": n,
                        "cls": (0..ncls).filter(|b| bit(s, *b)).collect::<Vec<_>>(),
                        "leaf": (0..leaves.len()).filter(|i| bit(s, ncls + *i)).collect::<Vec<_>>(),
                    })
                })
                .collect(),
        ),
    );
    res.insert("leaves".into(), json!(leaves));
    res.insert("leaf_builds".into(), json!(leaf_bits.iter().map(|b| b.is_some()).collect::<Vec<_>>()));
    res.insert("dump".into(), dump_to_json(&dump));
    res.insert(
        "minlog".into(),
        Value::Array(minlog.iter().map(|(a, b)| json!([dfa_to_json(a), dfa_to_json(b)])).collect()),
    );
    if let Some(inputs) = job.get("inputs").and_then(|i| i.as_array()) {
        let mut all = Vec::new();
        for inp in inputs {
            let inp = inp.as_str().unwrap_or("");
            let n = inp.chars().count() + 2;
            let ops: Vec<Value> = (0..n).map(|_| json!(["next"])).collect();
            all.push(json!(run_ops(&scanner, inp, &ops, false)));
        }
        res.insert("streams".into(), Value::Array(all));
    }
    Value::Object(res)
}

// ---------------------------------------------------------------------------------------------
// membership of every scalar value in a one-pattern scanner, as sorted inclusive ranges

fn job_class_sweep(job: &Value, leaf_cache: &LeafCache) -> Value {
    let mut out = Map::new();
    for p in job["patterns"].as_array().unwrap() {
        let p = p.as_str().unwrap();
        let v = match leaf_scanner(leaf_cache, p) {
            None => Value::Null,
            Some(s) => {
                let mut ranges: Vec<(u32, u32)> = Vec::new();
                for cp in 0..=0x10FFFFu32 {
                    let Some(c) = char::from_u32(cp) else { continue };
                    if leaf_matches(&s, c) {
                        match ranges.last_mut() {
                            Some(r) if r.1 + 1 == cp || (r.1 == 0xD7FF && cp == 0xE000) => r.1 = cp,
                            _ => ranges.push((cp, cp)),
                        }
                    }
                }
                json!(ranges)
            }
        };
        out.insert(p.to_string(), v);
    }
    json!({"ranges": out})
}

/// Several iterators over several inputs created from one or two scanners (optionally through
/// the cache), operated in an interleaved order; outputs are collected per iterator.
fn job_world(job: &Value) -> Value {
    let modes = modes_from_json(&job["modes"]);
    let cached = job.get("cached").and_then(|c| c.as_bool()).unwrap_or(false);
    let nscanners = job.get("nscanners").and_then(|c| c.as_u64()).unwrap_or(1) as usize;
    let mut scanners: Vec<Scanner> = Vec::new();
    for _ in 0..nscanners {
        match build(&modes, cached) {
            (Some(s), _, _) => scanners.push(s),
            (None, class, msg) => return json!({"build": class, "error": msg}),
        }
    }
    let inputs: Vec<String> = job["inputs"].as_array().unwrap().iter().map(|s| s.as_str().unwrap().to_string()).collect();
    // "shared_storage": inputs that are a prefix of the longest input are handed to find_iter as slices of that one
    // buffer (same start address, different ends), the way a caller scans `&text[..n]` and `text`, or refills a buffer
    let shared = job.get("shared_storage").and_then(|c| c.as_bool()).unwrap_or(false);
    let storage: String = inputs.iter().max_by_key(|s| s.len()).cloned().unwrap_or_default();
    let views: Vec<&str> = inputs
        .iter()
        .map(|s| if shared && storage.starts_with(s.as_str()) { &storage[..s.len()] } else { s.as_str() })
        .collect();
    // steps: ["new", iter_id, scanner_idx, input_idx] | ["op", iter_id, opname, arg?] | ["drop", iter_id] | ["scanner_set_mode", scanner_idx, mode]
    let mut outs: BTreeMap<u64, Vec<Vec<u64>>> = BTreeMap::new();
    let r = catch_unwind(AssertUnwindSafe(|| {
        let mut iters: BTreeMap<u64, (scnr::FindMatches, bool)> = BTreeMap::new();
        for step in job["steps"].as_array().unwrap() {
            match step[0].as_str().unwrap() {
                "new" => {
                    let id = step[1].as_u64().unwrap();
                    let sc = &scanners[step[2].as_u64().unwrap() as usize];
                    let inp: &str = views[step[3].as_u64().unwrap() as usize];
                    iters.insert(id, (sc.find_iter(inp), false));
                    outs.entry(id).or_default();
                }
                "drop" => {
                    iters.remove(&step[1].as_u64().unwrap());
                }
                "scanner_set_mode" => {
                    scanners[step[1].as_u64().unwrap() as usize].set_mode(step[2].as_u64().unwrap() as usize);
                }
                "op" => {
                    let id = step[1].as_u64().unwrap();
                    let Some((it, dead)) = iters.get_mut(&id) else { continue };
                    if *dead {
                        continue;
                    }
                    let name = step[2].as_str().unwrap();
                    let arg = step.get(3).and_then(|a| a.as_u64()).unwrap_or(0) as usize;
                    let r = catch_unwind(AssertUnwindSafe(|| match name {
                        "next" => match it.next() {
                            None => vec![0],
                            Some(m) => {
                                let mut v = vec![1];
                                v.extend(enc_match(&m));
                                v
                            }
                        },
                        "peek" => match it.peek_n(arg) {
                            PeekResult::Matches(ms) => {
                                let mut v = vec![1, ms.len() as u64];
                                ms.iter().for_each(|m| v.extend(enc_match(m)));
                                v
                            }
                            PeekResult::MatchesReachedEnd(ms) => {
                                let mut v = vec![2, ms.len() as u64];
                                ms.iter().for_each(|m| v.extend(enc_match(m)));
                                v
                            }
                            PeekResult::MatchesReachedModeSwitch((ms, mode)) => {
                                let mut v = vec![3, ms.len() as u64];
                                ms.iter().for_each(|m| v.extend(enc_match(m)));
                                v.push(mode as u64);
                                v
                            }
                            PeekResult::NotFound => vec![4],
                        },
                        "set_offset" => {
                            scnr::FindMatches::set_offset(it, arg);
                            vec![]
                        }
                        "advance_to" => vec![it.advance_to(arg) as u64],
                        "set_mode" => {
                            it.set_mode(arg);
                            vec![]
                        }
                        "position" => {
                            let p = PositionProvider::position(&*it, arg);
                            vec![p.line as u64, p.column as u64]
                        }
                        "current_mode" => vec![it.current_mode() as u64],
                        "offset" => vec![it.offset() as u64],
                        other => panic!("harness: unknown op {}", other),
                    }));
                    match r {
                        Ok(v) => outs.get_mut(&id).unwrap().push(v),
                        Err(_) => {
                            outs.get_mut(&id).unwrap().push(vec![PANIC_CODE]);
                            *dead = true;
                        }
                    }
                }
                other => panic!("harness: unknown step {}", other),
            }
        }
    }));
    let dump = verif::dump(&scanners[0]);
    let mut cls = Map::new();
    let mut chars: BTreeSet<char> = BTreeSet::new();
    for i in &inputs {
        chars.extend(i.chars());
    }
    for cc in 0..dump.classes.len() as u32 {
        let v: Vec<u32> = chars.iter().filter(|c| verif::match_class(&scanners[0], cc, **c) == Some(true)).map(|c| *c as u32).collect();
        cls.insert(cc.to_string(), json!(v));
    }
    json!({"build": "ok", "outs": outs.into_iter().map(|(k, v)| json!([k, v])).collect::<Vec<_>>(),
           "world_panic": r.is_err(), "dump": dump_to_json(&dump), "cls": cls,
           "scanner_modes": scanners.iter().map(|s| s.current_mode()).collect::<Vec<_>>()})
}

fn job_minimize(job: &Value) -> Value {
    let d = dfa_from_json(&job["dfa"]);
    match catch_unwind(|| verif::minimize(&d)) {
        Ok(o) => json!({"out": dfa_to_json(&o)}),
        Err(p) => json!({"panic": panic_message(p)}),
    }
}

fn job_findfrom(job: &Value) -> Value {
    let d = dfa_from_json(&job["dfa"]);
    // class table: {"cc": [chars]}
    let mut tbl: BTreeMap<u32, BTreeSet<u32>> = BTreeMap::new();
    for (k, v) in job["cls"].as_object().unwrap() {
        tbl.insert(
            k.parse().unwrap(),
            v.as_array().unwrap().iter().map(|c| c.as_u64().unwrap() as u32).collect(),
        );
    }
    let tbl = Arc::new(tbl);
    let mut outs = Vec::new();
    for inp in job["inputs"].as_array().unwrap() {
        let inp = inp.as_str().unwrap().to_string();
        let t = tbl.clone();
        let f: Arc<dyn Fn(u32, char) -> bool> =
            Arc::new(move |cc, c| t.get(&cc).map(|s| s.contains(&(c as u32))).unwrap_or(false));
        let d2 = d.clone();
        let r = catch_unwind(AssertUnwindSafe(move || verif::find_from(&d2, &inp, f)));
        outs.push(match r {
            Ok(None) => json!([0]),
            Ok(Some(m)) => json!([1, m.token_type(), m.start(), m.end()]),
            Err(_) => json!([PANIC_CODE]),
        });
    }
    json!({"outs": outs})
}

fn job_nfa(job: &Value) -> Value {
    let p = job["pattern"].as_str().unwrap();
    match catch_unwind(|| verif::nfa_dump(p)) {
        Ok(Ok(n)) => json!({"ok": true, "states": n.states, "start": n.start, "end": n.end, "classes": n.classes,
                            "ast": verif::parse(p).ok().and_then(|j| serde_json::from_str::<Value>(&j).ok())}),
        Ok(Err(e)) => json!({"ok": false, "error": e}),
        Err(p) => json!({"panic": panic_message(p)}),
    }
}

fn run_job(job: &Value, leaf_cache: &LeafCache) -> Value {
    let kind = job["kind"].as_str().unwrap_or("scan");
    let r = catch_unwind(AssertUnwindSafe(|| match kind {
        "scan" => job_scan(job, leaf_cache),
        "sweep" => job_sweep(job, leaf_cache),
        "class_sweep" => job_class_sweep(job, leaf_cache),
        "world" => job_world(job),
        "minimize" => job_minimize(job),
        "findfrom" => job_findfrom(job),
        "nfa" => job_nfa(job),
        "ids" => {
            let (s, c, t, g) = verif::id_bits();
            json!({"state": s, "class": c, "terminal": t, "group": g})
        }
        other => extra::run(other, job),
    }));
    let mut v = match r {
        Ok(v) => v,
        Err(p) => json!({"harness_panic": panic_message(p)}),
    };
    if let (Some(id), Some(o)) = (job.get("id"), v.as_object_mut()) {
        o.insert("id".into(), id.clone());
    }
    v
}

fn main() {
    let args: Vec<String> = std::env::args().collect();
    if args.len() < 3 {
        eprintln!("usage: {} <jobs.json> <results.jsonl> [threads]", args[0]);
        std::process::exit(2);
    }
    let threads: usize = args.get(3).and_then(|t| t.parse().ok()).unwrap_or(16);
    // panics of the implementation are expected outcomes; keep stderr quiet
    std::panic::set_hook(Box::new(|_| {}));
    let text = std::fs::read_to_string(&args[1]).expect("read jobs");
    let doc: Value = serde_json::from_str(&text).expect("parse jobs");
    let jobs: Vec<Value> = doc["jobs"].as_array().expect("jobs").clone();
    let n = jobs.len();
    // A job of a mutated library may never return. Workers are plain threads; the main thread watches the start
    // time of every running job: a job over its limit ("timeout_s" of the job, default 600 s) is recorded as
    // {"harness_timeout": ..}, a replacement worker takes over the remaining jobs, and the process exits when all
    // jobs are recorded (the stuck thread dies with the process).
    use std::sync::Arc;
    let jobs = Arc::new(jobs);
    let results: Arc<Vec<Mutex<Option<Value>>>> = Arc::new((0..n).map(|_| Mutex::new(None)).collect());
    let next = Arc::new(std::sync::atomic::AtomicUsize::new(0));
    let leaf_cache: Arc<LeafCache> = Arc::new(Mutex::new(HashMap::new()));
    let running: Arc<Mutex<HashMap<usize, std::time::Instant>>> = Arc::new(Mutex::new(HashMap::new()));
    let spawn_worker = {
        let (jobs, results, next, leaf_cache, running) = (jobs.clone(), results.clone(), next.clone(), leaf_cache.clone(), running.clone());
        move || {
            let (jobs, results, next, leaf_cache, running) = (jobs.clone(), results.clone(), next.clone(), leaf_cache.clone(), running.clone());
            std::thread::spawn(move || loop {
                let i = next.fetch_add(1, std::sync::atomic::Ordering::SeqCst);
                if i >= jobs.len() {
                    break;
                }
                running.lock().unwrap().insert(i, std::time::Instant::now());
                let r = run_job(&jobs[i], &leaf_cache);
                running.lock().unwrap().remove(&i);
                let mut slot = results[i].lock().unwrap();
                if slot.is_none() {
                    *slot = Some(r);
                }
            });
        }
    };
    for _ in 0..threads.max(1).min(n.max(1)) {
        spawn_worker();
    }
    let mut timeouts = 0usize;
    loop {
        std::thread::sleep(std::time::Duration::from_millis(100));
        let done = results.iter().filter(|r| r.lock().unwrap().is_some()).count();
        if done >= n {
            break;
        }
        if timeouts >= 6 {
            // enough evidence; every stuck thread burns a core: record the rest as skipped and stop
            next.store(n, std::sync::atomic::Ordering::SeqCst);
            for r in results.iter() {
                let mut slot = r.lock().unwrap();
                if slot.is_none() {
                    *slot = Some(json!({"build": "skipped", "harness_skipped": true}));
                }
            }
            break;
        }
        let over: Vec<usize> = running
            .lock()
            .unwrap()
            .iter()
            .filter(|(i, t)| t.elapsed().as_secs() >= jobs[**i].get("timeout_s").and_then(|x| x.as_u64()).unwrap_or(600))
            .map(|(i, _)| *i)
            .collect();
        for i in over {
            running.lock().unwrap().remove(&i);
            let mut slot = results[i].lock().unwrap();
            if slot.is_none() {
                *slot = Some(json!({"harness_timeout": jobs[i].get("timeout_s").and_then(|x| x.as_u64()).unwrap_or(600), "build": "timeout"}));
                drop(slot);
                timeouts += 1;
                spawn_worker();
            }
        }
    }
    let results: Vec<Option<Value>> = results.iter().map(|r| r.lock().unwrap().clone()).collect();
    let mut out = String::new();
    for r in results {
        out.push_str(&serde_json::to_string(&r.unwrap_or(Value::Null)).unwrap());
        out.push('\n');
    }
    std::fs::write(&args[2], out).expect("write results");
    // stuck worker threads (if any) die with the process
    std::process::exit(0);
}
