//! Job kinds of this property (see lib/prop_*.py). Returns None for kinds it does not know.
use serde_json::Value;

pub fn run(_kind: &str, _job: &Value) -> Option<Value> {
    None
}
