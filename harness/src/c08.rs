//! Job kinds of property C08 (see lib/prop_c08.py). Returns None for kinds it does not know.
//!
//! c08_parse : {"patterns":[p,..]} -> {"asts":[AST | {"k":"syntax_error","s":msg} | {"k":"parse_panic"}]}
//!             the abstract syntax trees as the crate's own parser sees them (scnr::verif::parse)
//! c08_ctx   : {"pairs":[[ctx,p],..]} -> as c08_class for p, observed in the second mode of a scanner whose first
//!             mode holds ctx (scanner-wide class registry: ctx is registered first)
//! c08_class : {"patterns":[p,..]} -> {"res":[{"p":p,"ast":AST,"build":class,"error":msg,
//!                                             "ranges":[[lo,hi],..]|null,"tokens":n,"anomalies":[..]}]}
//!             for every pattern the one-pattern scanner is built and ONE haystack that contains
//!             every Unicode scalar value exactly once, in increasing order, is scanned from start
//!             to end; `ranges` is the set of scalar values covered by a reported token (sorted,
//!             inclusive, merged over the surrogate gap). A token that does not cover exactly one
//!             character of the haystack is reported in `anomalies` (a class leaf consumes one
//!             character).
use std::panic::{catch_unwind, AssertUnwindSafe};
use std::sync::LazyLock;

use scnr::verif;
use scnr::{Pattern, ScannerMode, ScannerModeSwitcher};
use serde_json::{json, Value};

/// Every scalar value once, ascending.
static ALL_SCALARS: LazyLock<String> = LazyLock::new(|| {
    let mut s = String::with_capacity(4_400_000);
    for cp in 0..=0x10FFFFu32 {
        if let Some(c) = char::from_u32(cp) {
            s.push(c);
        }
    }
    s
});

fn parse_one(p: &str) -> Value {
    match catch_unwind(|| verif::parse(p)) {
        Ok(Ok(j)) => serde_json::from_str(&j).unwrap_or_else(|_| json!({"k":"bad_json"})),
        Ok(Err(e)) => json!({"k":"syntax_error","s":e}),
        Err(_) => json!({"k":"parse_panic"}),
    }
}

fn push_cp(ranges: &mut Vec<(u32, u32)>, cp: u32) {
    match ranges.last_mut() {
        Some(r) if r.1 + 1 == cp || (r.1 == 0xD7FF && cp == 0xE000) => r.1 = cp,
        _ => ranges.push((cp, cp)),
    }
}

fn class_one(p: &str) -> Value {
    class_in_context(None, p)
}

/// The class `p` observed through a scanner whose FIRST mode holds the pattern `ctx` (registered
/// before `p` in the scanner-wide class registry); the sweep runs in the mode of `p`.
fn class_in_context(ctx: Option<&str>, p: &str) -> Value {
    let ast = parse_one(p);
    let mut modes = Vec::new();
    if let Some(c) = ctx {
        modes.push(ScannerMode::new("C", vec![Pattern::new(c.to_string(), 7)], vec![]));
    }
    modes.push(ScannerMode::new("L", vec![Pattern::new(p.to_string(), 0)], vec![]));
    let (scanner, class, msg) = crate::build(&modes, false);
    let Some(scanner) = scanner else {
        return json!({"p": p, "ast": ast, "build": class, "error": msg, "ranges": Value::Null});
    };
    let text: &str = &ALL_SCALARS;
    let mut ranges: Vec<(u32, u32)> = Vec::new();
    let mut anomalies: Vec<Value> = Vec::new();
    let mut tokens = 0u64;
    let r = catch_unwind(AssertUnwindSafe(|| {
        let mut last_end = 0usize;
        let mut it = scanner.find_iter(text);
        if ctx.is_some() {
            it.set_mode(1);
        }
        for m in it {
            tokens += 1;
            let (s, e) = (m.start(), m.end());
            let ok = s >= last_end
                && e <= text.len()
                && text.is_char_boundary(s)
                && text.is_char_boundary(e)
                && s < e
                && text[s..e].chars().count() == 1;
            if !ok {
                if anomalies.len() < 5 {
                    anomalies.push(json!({"start": s, "end": e, "token_type": m.token_type()}));
                }
                if !(text.is_char_boundary(s) && text.is_char_boundary(e) && s < e && e <= text.len()) {
                    continue;
                }
            }
            for c in text[s..e].chars() {
                push_cp(&mut ranges, c as u32);
            }
            last_end = e;
        }
    }));
    if let Err(pn) = r {
        return json!({"p": p, "ast": ast, "build": "ok", "ranges": Value::Null,
                      "scan_panic": crate::panic_message(pn)});
    }
    json!({"p": p, "ast": ast, "build": "ok", "ranges": ranges, "tokens": tokens, "anomalies": anomalies})
}

pub fn run(kind: &str, job: &Value) -> Option<Value> {
    match kind {
        "c08_parse" => {
            let asts: Vec<Value> = job["patterns"]
                .as_array()
                .map(|a| a.iter().map(|p| parse_one(p.as_str().unwrap_or(""))).collect())
                .unwrap_or_default();
            Some(json!({"asts": asts}))
        }
        "c08_class" => {
            let res: Vec<Value> = job["patterns"]
                .as_array()
                .map(|a| a.iter().map(|p| class_one(p.as_str().unwrap_or(""))).collect())
                .unwrap_or_default();
            Some(json!({"res": res}))
        }
        "c08_ctx" => {
            let res: Vec<Value> = job["pairs"]
                .as_array()
                .map(|a| {
                    a.iter()
                        .map(|pr| {
                            let c = pr[0].as_str().unwrap_or("");
                            let p = pr[1].as_str().unwrap_or("");
                            let mut v = class_in_context(Some(c), p);
                            v["ctx"] = json!(c);
                            v
                        })
                        .collect()
                })
                .unwrap_or_default();
            Some(json!({"res": res}))
        }
        _ => None,
    }
}
