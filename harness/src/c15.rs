//! Job kinds of C15 (see lib/prop_c15.py). Returns None for kinds it does not know.
//!
//! `c15_build`: {"modes": [...]} -> the outcome class of `build_uncached()` and of `build()`
//! (both under catch_unwind; "ok" | "syntax" | "unsupported" | "io" | "empty" | "panic") with the
//! error or panic text, and the ASTs of all patterns and lookaheads as the crate's own parser
//! sees them (`{"k":"syntax_error"}` for a string that does not parse).
use std::panic::{catch_unwind, AssertUnwindSafe};

use serde_json::{json, Value};

fn short(s: &str) -> String {
    s.chars().take(300).collect()
}

pub fn run(kind: &str, job: &Value) -> Option<Value> {
    match kind {
        "c15_build" => {
            let modes_json = &job["modes"];
            let modes = match catch_unwind(AssertUnwindSafe(|| crate::modes_from_json(modes_json))) {
                Ok(m) => m,
                Err(p) => {
                    return Some(json!({"harness_error": format!("modes: {}", crate::panic_message(p))}));
                }
            };
            // uncached first: a panic inside the cached build poisons the cache lock for the
            // rest of the process
            let (_, ucls, umsg) = crate::build(&modes, false);
            let (_, ccls, cmsg) = crate::build(&modes, true);
            let (asts, _) = crate::asts_of(modes_json);
            Some(json!({
                "uncached": ucls, "uncached_err": short(&umsg),
                "cached": ccls, "cached_err": short(&cmsg),
                "asts": asts,
            }))
        }
        _ => None,
    }
}
