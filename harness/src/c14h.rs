//! C14 — "hammer" jobs (see lib/prop_c14.py): many rounds of the two kinds of concurrency the property
//! names, compared with the same calls made sequentially.
//!
//! c14_hammer: {"modes":M, "inputs":[..], "threads":T, "rounds":R, "build_rounds":B}
//!   phase A (scanning): one Scanner built through the cache is shared by the even threads, the odd
//!     threads build their own through the cache (hits on the same entry); thread i scans input i
//!     (all different) R times; every token stream must equal the sequential one.
//!   phase B (building): B rounds; in each round T barrier-released threads build the SAME fresh
//!     configuration (never built before in this process): all through add_patterns in two rounds of
//!     three, all through add_scanner_modes in the third; no call
//!     may panic, every scanner must scan like the uncached reference, the cache must stay usable.
use std::panic::{catch_unwind, AssertUnwindSafe};
use std::sync::{Arc, Barrier};

use scnr::{Pattern, ScannerBuilder, ScannerMode};
use serde_json::{json, Value};

type Toks = Vec<(usize, usize, usize)>;

fn scan(s: &scnr::Scanner, input: &str) -> Toks {
    s.find_iter(input).map(|m| (m.token_type(), m.start(), m.end())).collect()
}

fn hammer(job: &Value) -> Value {
    let modes = crate::modes_from_json(&job["modes"]);
    let inputs: Vec<String> = job["inputs"].as_array().map(|a| a.iter().map(|s| s.as_str().unwrap_or("").to_string()).collect()).unwrap_or_default();
    let threads = job["threads"].as_u64().unwrap_or(8) as usize;
    let rounds = job["rounds"].as_u64().unwrap_or(200) as usize;
    let build_rounds = job["build_rounds"].as_u64().unwrap_or(50) as usize;
    let mut problems: Vec<Value> = Vec::new();
    // ---------------- phase A
    let shared = match ScannerBuilder::new().add_scanner_modes(&modes).build() {
        Ok(s) => Arc::new(s),
        Err(e) => return json!({"setup_error": e.to_string()}),
    };
    let reference: Vec<Toks> = inputs.iter().map(|i| scan(&shared, i)).collect();
    let barrier = Arc::new(Barrier::new(threads));
    let mut hs = Vec::new();
    for t in 0..threads {
        let sh = shared.clone();
        let b = barrier.clone();
        let input = inputs[t % inputs.len()].clone();
        let want = reference[t % inputs.len()].clone();
        let m = modes.clone();
        hs.push(std::thread::spawn(move || {
            let r = catch_unwind(AssertUnwindSafe(|| {
                let own = if t % 2 == 1 { Some(ScannerBuilder::new().add_scanner_modes(&m).build().unwrap()) } else { None };
                b.wait();
                for round in 0..rounds {
                    let got = match &own {
                        Some(s) => scan(s, &input),
                        None => scan(&sh, &input),
                    };
                    if got != want {
                        return Some(json!({"phase": "scan", "thread": t, "round": round, "shared_scanner": own.is_none(),
                                           "input": input, "got": got.iter().take(8).collect::<Vec<_>>(), "got_len": got.len(),
                                           "sequential": want.iter().take(8).collect::<Vec<_>>(), "sequential_len": want.len()}));
                    }
                }
                None
            }));
            match r {
                Ok(v) => v,
                Err(p) => Some(json!({"phase": "scan", "thread": t, "panic": crate::panic_message(p)})),
            }
        }));
    }
    for h in hs {
        match h.join() {
            Ok(Some(v)) => problems.push(v),
            Ok(None) => {}
            Err(_) => problems.push(json!({"phase": "scan", "panic": "thread died"})),
        }
    }
    // ---------------- phase B
    let probe = "abcab cab";
    for round in 0..build_rounds {
        if problems.len() >= 5 {
            break;
        }
        // a configuration never built before in this process
        let pats: Vec<String> = vec![format!("a{}", "b".repeat(round % 3 + 1)), format!("c|q{}", round), "[ab]".to_string(), " +".to_string()];
        let simple_modes = vec![ScannerMode::new("INITIAL", pats.iter().enumerate().map(|(i, p)| Pattern::new(p.clone(), i)).collect::<Vec<_>>(), vec![])];
        let want = match ScannerBuilder::new().add_scanner_modes(&simple_modes).build_uncached() {
            Ok(s) => scan(&s, probe),
            Err(e) => {
                problems.push(json!({"phase": "build", "round": round, "reference_error": e.to_string()}));
                break;
            }
        };
        let barrier = Arc::new(Barrier::new(threads));
        let mut hs = Vec::new();
        for _t in 0..threads {
            let b = barrier.clone();
            let p = pats.clone();
            let sm = simple_modes.clone();
            hs.push(std::thread::spawn(move || {
                b.wait();
                catch_unwind(AssertUnwindSafe(|| {
                    let s = if round % 3 != 2 {
                        ScannerBuilder::new().add_patterns(p).build()
                    } else {
                        ScannerBuilder::new().add_scanner_modes(&sm).build()
                    };
                    s.map(|s| scan(&s, probe)).map_err(|e| e.to_string())
                }))
                .map_err(crate::panic_message)
            }));
        }
        for (t, h) in hs.into_iter().enumerate() {
            match h.join() {
                Ok(Ok(Ok(got))) => {
                    if got != want {
                        problems.push(json!({"phase": "build", "round": round, "thread": t, "got": got, "sequential": want}));
                    }
                }
                Ok(Ok(Err(e))) => problems.push(json!({"phase": "build", "round": round, "thread": t, "error": e})),
                Ok(Err(p)) => problems.push(json!({"phase": "build", "round": round, "thread": t, "panic": p})),
                Err(_) => problems.push(json!({"phase": "build", "round": round, "thread": t, "panic": "thread died"})),
            }
        }
    }
    json!({"problems": problems, "threads": threads, "rounds": rounds, "build_rounds": build_rounds, "inputs": inputs.len()})
}

pub fn run(kind: &str, job: &Value) -> Option<Value> {
    match kind {
        "c14_hammer" => Some(hammer(job)),
        _ => None,
    }
}
