//! C18 — the DOT export (see lib/prop_c18.py). Returns None for kinds it does not know.
//!
//! dot_export: {"modes":[..], "prefix":"P"} -> outcome of generate_compiled_automata_as_dot into a
//!   fresh scratch directory, the files it created (relative name, text), the dump of the compiled
//!   automata, the class label texts (escape_debug of the printed class AST) and the expected
//!   graph titles.
//! dot_fault: {"modes":[..], "prefix":"P", "fault":"missing|below_file|readonly|unwritable_fs|
//!   empty_prefix|slash_in_mode_name|name_too_long"} -> outcome class under catch_unwind.
use std::fs;
use std::panic::{catch_unwind, AssertUnwindSafe};
use std::path::{Path, PathBuf};
use std::sync::atomic::{AtomicUsize, Ordering};

use scnr::Scanner;
use serde_json::{json, Map, Value};

static COUNTER: AtomicUsize = AtomicUsize::new(0);

/// A fresh directory below the system's temporary directory (unique per call).
fn scratch_dir() -> PathBuf {
    let n = COUNTER.fetch_add(1, Ordering::SeqCst);
    let nanos = std::time::SystemTime::now()
        .duration_since(std::time::UNIX_EPOCH)
        .map(|d| d.as_nanos())
        .unwrap_or(0);
    let d = std::env::temp_dir().join(format!("scnr_verif_c18_{}_{}_{}", std::process::id(), n, nanos));
    let _ = fs::remove_dir_all(&d);
    fs::create_dir_all(&d).expect("harness: cannot create the scratch directory");
    d
}

/// Removes a scratch directory even if permission bits were changed inside it.
fn remove_scratch(d: &Path) {
    fn unlock(p: &Path) {
        if let Ok(md) = fs::symlink_metadata(p) {
            if md.is_dir() {
                #[cfg(unix)]
                {
                    use std::os::unix::fs::PermissionsExt;
                    let _ = fs::set_permissions(p, fs::Permissions::from_mode(0o755));
                }
                if let Ok(rd) = fs::read_dir(p) {
                    for e in rd.flatten() {
                        unlock(&e.path());
                    }
                }
            }
        }
    }
    unlock(d);
    let _ = fs::remove_dir_all(d);
}

/// All regular files below `root` as (name relative to root, content), sorted by name.
fn list_files(root: &Path) -> Vec<(String, Value)> {
    fn walk(root: &Path, dir: &Path, out: &mut Vec<(String, Value)>) {
        let Ok(rd) = fs::read_dir(dir) else { return };
        for e in rd.flatten() {
            let p = e.path();
            let Ok(md) = fs::symlink_metadata(&p) else { continue };
            if md.is_dir() {
                walk(root, &p, out);
            } else {
                let rel = p.strip_prefix(root).unwrap_or(&p).to_string_lossy().to_string();
                let text = match fs::read(&p) {
                    Ok(b) => match String::from_utf8(b) {
                        Ok(s) => json!(s),
                        Err(_) => json!({"not_utf8": true}),
                    },
                    Err(e) => json!({"unreadable": e.to_string()}),
                };
                out.push((rel, text));
            }
        }
    }
    let mut out = Vec::new();
    walk(root, root, &mut out);
    out.sort_by(|a, b| a.0.cmp(&b.0));
    out
}

/// Calls the export under catch_unwind: (outcome class, message).
fn call_export(scanner: &Scanner, prefix: &str, dir: &Path) -> (&'static str, String) {
    let r = catch_unwind(AssertUnwindSafe(|| scanner.generate_compiled_automata_as_dot(prefix, dir)));
    match r {
        Ok(Ok(())) => ("ok", String::new()),
        Ok(Err(e)) => (crate::error_class(&e), e.to_string()),
        Err(p) => ("panic", crate::panic_message(p)),
    }
}

/// Builds the scanner of a job; on failure the result object is complete.
fn build_job(job: &Value, res: &mut Map<String, Value>) -> Option<Scanner> {
    let modes = match catch_unwind(|| crate::modes_from_json(&job["modes"])) {
        Ok(m) => m,
        Err(p) => {
            res.insert("build".into(), json!("panic"));
            res.insert("error".into(), json!(crate::panic_message(p)));
            return None;
        }
    };
    let (scanner, class, msg) = crate::build(&modes, false);
    res.insert("build".into(), json!(class));
    if !msg.is_empty() {
        res.insert("error".into(), json!(msg));
    }
    scanner
}

fn job_dot_export(job: &Value) -> Value {
    let mut res = Map::new();
    let Some(scanner) = build_job(job, &mut res) else {
        return Value::Object(res);
    };
    let prefix = job.get("prefix").and_then(|p| p.as_str()).unwrap_or("P");
    let dump = scnr::verif::dump(&scanner);
    let dir = scratch_dir();
    // optionally the folder already holds an export of another (larger) configuration with the same prefix and
    // mode names: the files must be REPLACED by this export
    if let Some(first) = job.get("first") {
        if let Ok(fm) = catch_unwind(|| crate::modes_from_json(first)) {
            if let (Some(fs), _, _) = crate::build(&fm, false) {
                let (c0, m0) = call_export(&fs, prefix, &dir);
                res.insert("first_outcome".into(), json!(c0));
                res.insert("first_message".into(), json!(m0));
                res.insert(
                    "first_sizes".into(),
                    Value::Array(list_files(&dir).into_iter().map(|(n, t)| json!([n, t.as_str().map(|x| x.len()).unwrap_or(0)])).collect()),
                );
            }
        }
    }
    let (class, msg) = call_export(&scanner, prefix, &dir);
    res.insert("outcome".into(), json!(class));
    if !msg.is_empty() {
        res.insert("message".into(), json!(msg));
    }
    let files = list_files(&dir);
    remove_scratch(&dir);
    res.insert("removed".into(), json!(!dir.exists()));
    res.insert("files".into(), Value::Array(files.into_iter().map(|(n, t)| json!([n, t])).collect()));
    // what dot.rs prints for a class: escape_debug of the printed class AST
    res.insert(
        "cls_escaped".into(),
        json!(dump.classes.iter().map(|c| c.escape_debug().to_string()).collect::<Vec<_>>()),
    );
    // what dot.rs prints as graph title: "<label>: <escape_default of the first pattern>..."
    res.insert(
        "titles".into(),
        json!(dump
            .modes
            .iter()
            .map(|m| match m.dfa.patterns.first() {
                Some(p) => json!(format!("Compiled DFA {}: {}...", m.name, p.escape_default())),
                None => Value::Null,
            })
            .collect::<Vec<_>>()),
    );
    res.insert("dump".into(), crate::dump_to_json(&dump));
    Value::Object(res)
}

fn job_dot_fault(job: &Value) -> Value {
    let mut res = Map::new();
    let Some(scanner) = build_job(job, &mut res) else {
        return Value::Object(res);
    };
    let prefix = job.get("prefix").and_then(|p| p.as_str()).unwrap_or("P");
    let fault = job.get("fault").and_then(|p| p.as_str()).unwrap_or("missing");
    let dir = scratch_dir();
    let mut exercised = true;
    let mut why = String::new();
    // probe: can a file be created in `t` by this process? (root ignores permission bits)
    let can_create = |t: &Path| -> bool {
        let p = t.join("scnr_verif_probe");
        match fs::File::create(&p) {
            Ok(_) => {
                let _ = fs::remove_file(&p);
                true
            }
            Err(_) => false,
        }
    };
    let target: PathBuf = match fault {
        "missing" => dir.join("does").join("not").join("exist"),
        "below_file" => {
            let f = dir.join("regular_file");
            fs::write(&f, b"x").expect("harness: write");
            f.join("sub")
        }
        "is_file" => {
            let f = dir.join("regular_file");
            fs::write(&f, b"x").expect("harness: write");
            f
        }
        "readonly" => {
            let t = dir.join("ro");
            fs::create_dir_all(&t).expect("harness: mkdir");
            #[cfg(unix)]
            {
                use std::os::unix::fs::PermissionsExt;
                fs::set_permissions(&t, fs::Permissions::from_mode(0o555)).expect("harness: chmod");
            }
            #[cfg(not(unix))]
            {
                let mut p = fs::metadata(&t).unwrap().permissions();
                p.set_readonly(true);
                fs::set_permissions(&t, p).expect("harness: chmod");
            }
            if can_create(&t) {
                exercised = false;
                why = "permission bits do not bite for this user (root)".into();
            }
            t
        }
        "unwritable_fs" => {
            // a directory in which even root cannot create files
            let t = PathBuf::from("/proc");
            if !t.is_dir() {
                exercised = false;
                why = "/proc does not exist".into();
            } else if can_create(&t) {
                exercised = false;
                why = "files can be created in /proc".into();
            }
            t
        }
        // the remaining faults are in the configuration (prefix / mode name), the folder is fine
        _ => dir.clone(),
    };
    res.insert("fault".into(), json!(fault));
    res.insert("exercised".into(), json!(exercised));
    if !why.is_empty() {
        res.insert("why".into(), json!(why));
    }
    if exercised {
        let (class, msg) = call_export(&scanner, prefix, &target);
        res.insert("outcome".into(), json!(class));
        if !msg.is_empty() {
            res.insert("message".into(), json!(msg));
        }
        let files: Vec<String> = list_files(&dir).into_iter().map(|(n, _)| n).collect();
        res.insert("files".into(), json!(files));
        // a file that escaped the folder through the prefix / mode name
        if let Some(p) = job.get("escape_probe").and_then(|p| p.as_str()) {
            let e = dir.join(p);
            res.insert("escaped_exists".into(), json!(e.exists()));
        }
    }
    remove_scratch(&dir);
    res.insert("removed".into(), json!(!dir.exists()));
    Value::Object(res)
}

pub fn run(kind: &str, job: &Value) -> Option<Value> {
    match kind {
        "dot_export" => Some(job_dot_export(job)),
        "dot_fault" => Some(job_dot_fault(job)),
        _ => None,
    }
}
