#!/bin/bash
# usage: patch_all_par.sh <patch files...>: like patch_all.sh, but runs the 18 quick checks of each patch concurrently
# (they share nothing but one `make` at a time in coq/); prints one line per (patch, check). /repo must be clean.
cd /verif
[ -z "$(git -C /repo status --short)" ] || { echo "/repo working tree is not clean"; exit 2; }
BK=$(mktemp -d /tmp/evid.XXXXXX); cp -r /verif/evidence/. $BK/
for P in "$@"; do
  P=$(realpath "$P")
  git -C /repo apply "$P" || { echo "$(basename $P): patch does not apply"; continue; }
  T=$(mktemp -d /tmp/pall.XXXXXX)
  for c in C01 C02 C03 C04 C05 C06 C07 C08 C09 C10 C11 C12 C13 C14 C15 C16 C17 C18; do
    ( ./check $c quick > $T/$c.log 2>&1; echo $? > $T/$c.rc ) &
  done
  wait
  for c in C01 C02 C03 C04 C05 C06 C07 C08 C09 C10 C11 C12 C13 C14 C15 C16 C17 C18; do
    nc=$(grep "^VIOLATION" $T/$c.log | grep -vc "no-failing-input-found"); nf=$(grep -c "no-failing-input-found" $T/$c.log)
    echo "$(basename $P) $c: exit $(cat $T/$c.rc) concrete $nc no-failing-input-found $nf"
  done
  rm -rf $T
  git -C /repo checkout -- .
done
for c in C12 C13 C14 C15 C17; do ./check $c quick > /dev/null 2>&1; done
cp -r $BK/. /verif/evidence/; rm -rf $BK
