#!/bin/bash
# usage: seedrun.sh <patch> <tier> <check ids...>: applies the patch to /repo, runs the checks, reverts.
P=$(realpath "$1"); TIER=$2; shift 2
cd /verif
BK=$(mktemp -d /tmp/evid.XXXXXX); cp -r /verif/evidence/. $BK/   # seeded runs must not leave their evidence behind
git -C /repo apply "$P" || { echo "patch does not apply"; exit 2; }
for c in "$@"; do
  echo "== $c ($TIER) with $(basename $(dirname $P))"; ./check $c $TIER 2>&1 | grep -E "VIOLATION|KNOWN|obligations" | head -4
done
git -C /repo checkout -- . ; cp -r $BK/. /verif/evidence/; rm -rf $BK; git -C /repo status --short | head -3
