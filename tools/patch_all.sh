#!/bin/bash
# usage: patch_all.sh <patch file> [check ids...]: applies the patch to /repo, runs the quick tier of all (or the given)
# checks, reverts; prints one line per check. Used for seeded changes and for harmless refactors (false-alarm audit).
P=$(realpath "$1"); shift
cd /verif
[ -z "$(git -C /repo status --short)" ] || { echo "/repo working tree is not clean"; exit 2; }
BK=$(mktemp -d /tmp/evid.XXXXXX); cp -r /verif/evidence/. $BK/
git -C /repo apply "$P" || { echo "patch does not apply"; exit 2; }
IDS="$@"; [ -n "$IDS" ] || IDS="C01 C02 C03 C04 C05 C06 C07 C08 C09 C10 C11 C12 C13 C14 C15 C16 C17 C18"
for c in $IDS; do
  log=$(./check $c quick 2>&1); rc=$?
  nc=$(echo "$log" | grep "^VIOLATION" | grep -vc "no-failing-input-found"); nf=$(echo "$log" | grep -c "no-failing-input-found")
  echo "$(basename $P) $c: exit $rc concrete $nc no-failing-input-found $nf"
done
git -C /repo checkout -- .
for c in C12 C13 C14 C15 C17; do ./check $c quick > /dev/null 2>&1; done
cp -r $BK/. /verif/evidence/; rm -rf $BK
