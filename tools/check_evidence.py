#!/usr/bin/env python3
"""Sanity check before committing: every evidence file is a record of a clean run on the unchanged
tree (all obligations discharged, no violations), validates against the schema, and coq/Gen/*.v is
what the translators produce from the current /repo tree."""
import json, os, subprocess, sys
ROOT = os.path.dirname(os.path.dirname(os.path.abspath(__file__)))
bad = 0
try:
    import jsonschema
    schema = json.load(open('/root/.vp/EVIDENCE.schema.json'))
except Exception:
    jsonschema = None
for f in sorted(os.listdir(os.path.join(ROOT, 'evidence'))):
    e = json.load(open(os.path.join(ROOT, 'evidence', f)))
    cov = e.get('coverage', {})
    if cov.get('discharged') != cov.get('obligations') or not cov.get('obligations'):
        print('BAD %s: discharged %s of %s' % (f, cov.get('discharged'), cov.get('obligations'))); bad += 1
    if e.get('violations') or e.get('result') not in (None, 'pass', 'held'):
        if e.get('violations'):
            print('BAD %s: violations recorded' % f); bad += 1
    if jsonschema:
        try:
            jsonschema.validate(e, schema)
        except Exception as ex:
            print('BAD %s: schema: %s' % (f, str(ex)[:200])); bad += 1
st = subprocess.run(['git', '-C', '/repo', 'status', '--short'], stdout=subprocess.PIPE).stdout.decode().strip()
if st:
    print('BAD: /repo working tree is not clean:\n' + st); bad += 1
print('evidence ok' if not bad else '%d problem(s)' % bad)
sys.exit(1 if bad else 0)
