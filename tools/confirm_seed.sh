#!/bin/bash
# usage: confirm_seed.sh <dir with patch.diff and seeded_demo.rs> -> prints a JSON line with the confirmation
# Confirms in a scratch worktree of /repo (under /tmp) that the patch compiles, the existing suite
# passes with it, and the demonstration passes without and fails with it.
set -u
D=$(realpath "$1"); ID=$(basename "$D"); WT=/tmp/confirm_$ID
git -C /repo worktree remove --force $WT >/dev/null 2>&1; rm -rf $WT
git -C /repo worktree add --detach $WT HEAD >/dev/null 2>&1 || { echo '{"error":"worktree"}'; exit 1; }
cp "$D/seeded_demo.rs" $WT/scnr/tests/seeded_demo.rs
cd $WT/scnr
export CARGO_NET_OFFLINE=true
REL=${RELEASE:+--release}
cargo test $REL --offline --test seeded_demo >/tmp/confirm_$ID.base.log 2>&1; BASE_DEMO=$?
git -C $WT apply "$D/patch.diff" || { echo '{"error":"patch does not apply"}'; git -C /repo worktree remove --force $WT; exit 1; }
cargo build --offline >/tmp/confirm_$ID.build.log 2>&1; BUILD=$?
mv $WT/scnr/tests/seeded_demo.rs /tmp/confirm_$ID.demo.rs
cargo test --offline >/tmp/confirm_$ID.suite.log 2>&1; SUITE=$?
cp /tmp/confirm_$ID.demo.rs $WT/scnr/tests/seeded_demo.rs
cargo test $REL --offline --test seeded_demo >/tmp/confirm_$ID.mut.log 2>&1; MUT_DEMO=$?
cd /; git -C /repo worktree remove --force $WT >/dev/null 2>&1; rm -rf $WT
echo "{\"id\":\"$ID\",\"demo_passes_without_change\":$([ $BASE_DEMO = 0 ] && echo true || echo false),\"builds_with_change\":$([ $BUILD = 0 ] && echo true || echo false),\"suite_passes_with_change\":$([ $SUITE = 0 ] && echo true || echo false),\"demo_fails_with_change\":$([ $MUT_DEMO != 0 ] && echo true || echo false)}"
