#!/bin/bash
# usage: seed_regress.sh [tier]  -- applies every seeded change in turn to /repo (never committed),
# runs the quick check of the property it was written for, reverts, and writes seeded/regression.json.
# Must be run on a clean /repo working tree.
TIER=${1:-quick}
cd /verif
[ -z "$(git -C /repo status --short)" ] || { echo "/repo working tree is not clean"; exit 2; }
OUT=/verif/seeded/regression.json
BK=$(mktemp -d /tmp/evid.XXXXXX); cp -r /verif/evidence/. $BK/   # seeded runs must not leave their evidence behind
echo "{" > $OUT.tmp
first=1
for d in seeded/*/; do
  id=$(basename $d)
  [ -f $d/patch.diff ] || continue
  prop=$(python3 -c "import json;print(json.load(open('$d/meta.json'))['property'])")
  git -C /repo apply $(realpath $d/patch.diff) || { echo "$id: patch does not apply"; continue; }
  log=$(./check $prop $TIER 2>&1); rc=$?
  git -C /repo checkout -- .
  nv=$(echo "$log" | grep -c "^VIOLATION")
  nf=$(echo "$log" | grep -c "no-failing-input-found")
  echo "$id -> $prop: exit $rc, $nv VIOLATION lines ($nf without failing input)"
  [ $first = 1 ] || echo "," >> $OUT.tmp; first=0
  printf ' "%s": {"check": "%s %s", "exit": %d, "violation_lines": %d, "of_which_no_failing_input_found": %d}' $id $prop $TIER $rc $nv $nf >> $OUT.tmp
done
echo "" >> $OUT.tmp; echo "}" >> $OUT.tmp; mv $OUT.tmp $OUT
git -C /repo status --short | head -3
# the regenerated model constants (coq/Gen/*.v) may be those of the last seeded tree: regenerate them from the clean tree
for c in C12 C13 C14 C15 C17; do ./check $c quick > /dev/null 2>&1; done
cp -r $BK/. /verif/evidence/; rm -rf $BK
git -C /verif status --short coq/Gen | head
