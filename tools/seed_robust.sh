#!/bin/bash
# usage: seed_robust.sh "<exploration seeds>" [seed ids...]  -- like seed_regress.sh, but runs the quick check of the
# property each seeded change was written for once per exploration seed (VERIF_SEED) and records the number of
# VIOLATION lines with a concrete failing input; writes seeded/robustness.json. /repo must be clean.
SEEDS="$1"; shift
cd /verif
[ -z "$(git -C /repo status --short)" ] || { echo "/repo working tree is not clean"; exit 2; }
BK=$(mktemp -d /tmp/evid.XXXXXX); cp -r /verif/evidence/. $BK/
IDS="$@"; [ -n "$IDS" ] || IDS=$(ls seeded | grep -v json)
OUT=/verif/seeded/robustness.json
echo "{" > $OUT.tmp; first=1
for id in $IDS; do
  d=seeded/$id; [ -f $d/patch.diff ] || continue
  prop=$(python3 -c "import json;print(json.load(open('$d/meta.json'))['property'])")
  res=""
  for sd in $SEEDS; do
    git -C /repo apply $(realpath $d/patch.diff) || { echo "$id: patch does not apply"; continue; }
    log=$(VERIF_SEED=$sd ./check $prop quick 2>&1); rc=$?
    git -C /repo checkout -- .
    nc=$(echo "$log" | grep "^VIOLATION" | grep -vc "no-failing-input-found")
    nf=$(echo "$log" | grep -c "no-failing-input-found")
    res="$res\"$sd\": {\"exit\": $rc, \"concrete\": $nc, \"no_failing_input_found\": $nf}, "
    echo "$id ($prop) VERIF_SEED=$sd: exit $rc, concrete $nc, nfif $nf"
  done
  [ $first = 1 ] || echo "," >> $OUT.tmp; first=0
  printf ' "%s": {"check": "%s quick", %s"_": 0}' $id $prop "$res" >> $OUT.tmp
done
echo "" >> $OUT.tmp; echo "}" >> $OUT.tmp; mv $OUT.tmp $OUT
for c in C12 C13 C14 C15 C17; do ./check $c quick > /dev/null 2>&1; done
cp -r $BK/. /verif/evidence/; rm -rf $BK
git -C /repo status --short | head -3
